(* C11 -- radial distributions: theorems about the executable model Model/C11.v. *)
From Coq Require Import Permutation Sorted.
From GV Require Import Base.Prelude Model.C03 Proofs.C03 Proofs.C05 Model.C11.

(* ====================================================================== *)
(* generic list facts                                                      *)
(* ====================================================================== *)
Lemma zip_with_length {A B C} (f : A -> B -> C) : forall a b,
  length (zip_with f a b) = Nat.min (length a) (length b).
Proof.
  induction a as [|x a IH]; intros [|y b]; cbn [zip_with length Nat.min]; try reflexivity.
  f_equal. apply IH.
Qed.

Lemma in_zip_with {A B C} (f : A -> B -> C) : forall a b z,
  In z (zip_with f a b) -> exists x y, In x a /\ In y b /\ z = f x y.
Proof.
  induction a as [|x a IH]; intros [|y b] z H; cbn [zip_with] in H; try contradiction.
  destruct H as [<-|H].
  - exists x, y. cbn. auto.
  - destruct (IH b z H) as (x' & y' & Hx & Hy & E). exists x', y'. cbn. auto.
Qed.

Lemma nth_error_zip_with {A B C} (f : A -> B -> C) : forall a b t v,
  nth_error (zip_with f a b) t = Some v ->
  exists x y, nth_error a t = Some x /\ nth_error b t = Some y /\ v = f x y.
Proof.
  induction a as [|x a IH]; intros [|y b] [|t] v H; cbn [zip_with nth_error] in H; try discriminate.
  - injection H as <-. exists x, y. cbn. auto.
  - cbn [nth_error]. apply IH. exact H.
Qed.

Lemma nth_error_zip_with_intro {A B C} (f : A -> B -> C) : forall a b t x y,
  nth_error a t = Some x -> nth_error b t = Some y ->
  nth_error (zip_with f a b) t = Some (f x y).
Proof.
  induction a as [|x0 a IH]; intros [|y0 b] [|t] x y Ha Hb; cbn [nth_error] in *; try discriminate.
  - injection Ha as <-. injection Hb as <-. reflexivity.
  - cbn [zip_with nth_error]. apply IH; assumption.
Qed.

Lemma concat_length_const {A} (l : list (list A)) c :
  (forall x, In x l -> length x = c) -> length (concat l) = (length l * c)%nat.
Proof.
  induction l as [|x l IH]; intros H; cbn [concat length]; [reflexivity|].
  rewrite app_length, (H x (or_introl eq_refl)), IH; [lia|].
  intros y Hy. apply H. right. exact Hy.
Qed.

Lemma filter_length_le' {A} (p : A -> bool) l : (length (filter p l) <= length l)%nat.
Proof. induction l as [|x l IH]; cbn [filter length]; [lia|]. destruct (p x); cbn [length]; lia. Qed.

Lemma zsum_map_one {A} (l : list A) : zsum (map (fun _ => 1) l) = Z.of_nat (length l).
Proof. induction l as [|x l IH]; cbn [map zsum length]; lia. Qed.

Lemma nth_error_rev {A} : forall (l : list A) t, (t < length l)%nat ->
  nth_error (rev l) t = nth_error l (length l - 1 - t).
Proof.
  induction l as [|x l IH]; intros t Ht; cbn [length] in Ht; [lia|].
  cbn [rev length]. destruct (Nat.eq_dec t (length l)) as [->|Hne].
  - rewrite nth_error_app2 by (rewrite rev_length; lia). rewrite rev_length.
    replace (length l - length l)%nat with 0%nat by lia.
    replace (S (length l) - 1 - length l)%nat with 0%nat by lia. reflexivity.
  - rewrite nth_error_app1 by (rewrite rev_length; lia). rewrite IH by lia.
    replace (S (length l) - 1 - t)%nat with (S (length l - 1 - t)) by lia. reflexivity.
Qed.

Lemma ffill_spec_length : forall l c, length (ffill_spec c l) = length l.
Proof. induction l as [|x l IH]; intros c; cbn [ffill_spec length]; [reflexivity|]. f_equal. apply IH. Qed.

(* ====================================================================== *)
(* (1) partition of the pair counts                                        *)
(* ====================================================================== *)
Lemma sname_eqb_spec a b : sname_eqb a b = true <-> a = b.
Proof.
  destruct a, b; cbn [sname_eqb]; rewrite ?andb_true_iff, ?Z.eqb_eq; split; intro H;
    try discriminate; try (inversion H; subst; auto; fail); try (destruct H; congruence); congruence.
Qed.

(* boolean equality on (state name, species, bin) keys; the arguments are compared in the
   order used by count_key (row first, key second) *)
Definition key3_eqb (a b : sname * Z * Z) : bool :=
  sname_eqb (fst (fst b)) (fst (fst a)) && (snd (fst b) =? snd (fst a)) && (snd b =? snd a).

Lemma key3_eqb_spec a b : key3_eqb a b = true <-> a = b.
Proof.
  destruct a as [[a1 a2] a3], b as [[b1 b2] b3]. unfold key3_eqb. cbn [fst snd].
  rewrite !andb_true_iff, sname_eqb_spec, !Z.eqb_eq. split.
  - intros [[H1 H2] H3]. congruence.
  - intro H. inversion H; subst. auto.
Qed.

Definition pkey (p : pair_rec) : sname * Z * Z := (p_name p, p_sym p, p_bin p).

Lemma count_key_kcount ps nm sym bin :
  count_key ps nm sym bin = kcount key3_eqb pkey (nm, sym, bin) ps.
Proof. reflexivity. Qed.

Theorem count_partition : forall ps (names : list sname) (syms bins : list Z),
  NoDup names -> NoDup syms -> NoDup bins ->
  (forall p, In p ps -> In (p_name p) names /\ In (p_sym p) syms /\ In (p_bin p) bins) ->
  zsum (map (fun k => count_key ps (fst (fst k)) (snd (fst k)) (snd k))
            (list_prod (list_prod names syms) bins)) = Z.of_nat (length ps).
Proof.
  intros ps names syms bins Hn Hs Hb Hin.
  rewrite <- (zsum_map_one ps).
  rewrite <- (wsum_partition key3_eqb key3_eqb_spec pkey (fun _ => 1)
                (list_prod (list_prod names syms) bins) ps).
  - apply zsum_map_ext. intros [[a b] c] _. cbn [fst snd]. rewrite count_key_kcount. lia.
  - apply NoDup_list_prod; [apply NoDup_list_prod|]; assumption.
  - intros p Hp. destruct (Hin p Hp) as (H1 & H2 & H3). unfold pkey.
    apply in_prod; [apply in_prod|]; assumption.
Qed.
Print Assumptions count_partition.

(* each pair is in exactly one key: the count of a key is the number of pairs carrying exactly
   that (state name, species, bin) triple *)
Theorem count_key_exact : forall ps nm sym bin,
  count_key ps nm sym bin =
  Z.of_nat (length (filter (fun p => key3_eqb (nm, sym, bin) (pkey p)) ps)) /\
  (forall p, key3_eqb (nm, sym, bin) (pkey p) = true <-> (p_name p = nm /\ p_sym p = sym /\ p_bin p = bin)).
Proof.
  intros ps nm sym bin. split; [reflexivity|]. intro p. rewrite key3_eqb_spec. unfold pkey. split.
  - intro H. inversion H. auto.
  - intros (-> & -> & ->). reflexivity.
Qed.
Print Assumptions count_key_exact.

(* number of counted pairs, rectangular input *)
Theorem pairs_length : forall nlab labels hists symbols edges2 dists,
  (forall fr, In fr dists -> length fr = length hists) ->
  (forall fr row, In fr dists -> In row fr -> length row = length symbols) ->
  length (pairs_of nlab labels hists symbols edges2 dists)
  = (length dists * length hists * length symbols)%nat.
Proof.
  intros nlab labels hists symbols edges2 dists Hfr Hrow. unfold pairs_of.
  rewrite (concat_length_const _ (length hists * length symbols)%nat).
  - rewrite map_length, combine_length, seq_length. lia.
  - intros x Hx. apply in_map_iff in Hx. destruct Hx as ([t fr] & <- & Htd).
    apply in_combine_r in Htd. cbn [fst snd].
    rewrite (concat_length_const _ (length symbols)).
    + rewrite zip_with_length, map_length, (Hfr fr Htd). lia.
    + intros y Hy. apply in_zip_with in Hy. destruct Hy as (nm & row & _ & Hr & ->).
      rewrite zip_with_length, (Hrow fr row Htd Hr). lia.
Qed.
Print Assumptions pairs_length.

(* general form: per frame, the first (length hists) rows contribute min(#symbols, row length) each *)
Lemma concat_length_sum {A} (l : list (list A)) : length (concat l) = list_sum (map (@length A) l).
Proof. induction l as [|x l IH]; cbn [concat map list_sum]; [reflexivity|]. rewrite app_length, IH. reflexivity. Qed.

Lemma zip_with_lengths_firstn {A B C} (f : A -> B -> list C) (g : B -> nat) : forall a b,
  (forall x y, length (f x y) = g y) ->
  map (@length C) (zip_with f a b) = map g (firstn (length a) b).
Proof.
  intros a b H. revert b. induction a as [|x a IH]; intros [|y b]; cbn [zip_with map length firstn]; try reflexivity.
  rewrite H, IH. reflexivity.
Qed.

Theorem pairs_length_general : forall nlab labels hists symbols edges2 dists,
  length (pairs_of nlab labels hists symbols edges2 dists)
  = list_sum (map (fun fr => list_sum (map (fun row => Nat.min (length symbols) (length row))
                                           (firstn (length hists) fr))) dists).
Proof.
  intros nlab labels hists symbols edges2 dists. unfold pairs_of.
  rewrite concat_length_sum, map_map.
  set (F := fun fr : list (list (Z * Z)) =>
              list_sum (map (fun row => Nat.min (length symbols) (length row)) (firstn (length hists) fr))).
  assert (G : forall (l : list (list (list (Z * Z)))) s,
    map (fun td : nat * list (list (Z * Z)) =>
      length (concat (zip_with (fun nm row =>
        zip_with (fun sym d2 => {| p_name := nth (fst td) nm (Leaving (-9)); p_sym := sym;
                                   p_bin := bin_right edges2 d2 |}) symbols row)
        (map (names_of_atom nlab labels) hists) (snd td)))) (combine (seq s (length l)) l)
    = map F l).
  { induction l as [|fr l IH]; intros s; cbn [length seq combine map]; [reflexivity|].
    rewrite IH. f_equal. cbn [fst snd]. rewrite concat_length_sum.
    rewrite (zip_with_lengths_firstn _ (fun row => Nat.min (length symbols) (length row))).
    - rewrite map_length. reflexivity.
    - intros x y. apply zip_with_length. }
  rewrite G. reflexivity.
Qed.
Print Assumptions pairs_length_general.

(* ====================================================================== *)
(* (2) bin facts                                                           *)
(* ====================================================================== *)
Theorem bin_right_range : forall edges2 d2, 0 <= bin_right edges2 d2 <= Z.of_nat (length edges2).
Proof.
  intros edges2 d2. unfold bin_right.
  pose proof (filter_length_le' (fun e => fst e * snd d2 <? fst d2 * snd e) edges2). lia.
Qed.
Print Assumptions bin_right_range.

(* rational order on (numerator, denominator) pairs with positive denominators *)
Definition rle (a b : Z * Z) : bool := fst a * snd b <=? fst b * snd a.
Definition rlt (a b : Z * Z) : bool := fst a * snd b <? fst b * snd a.

Lemma rle_trans a b c : 0 < snd a -> 0 < snd b -> 0 < snd c ->
  rle a b = true -> rle b c = true -> rle a c = true.
Proof.
  destruct a as [a1 a2], b as [b1 b2], c as [c1 c2]. unfold rle. cbn [fst snd].
  intros Ha Hb Hc H1 H2. apply Z.leb_le in H1. apply Z.leb_le in H2. apply Z.leb_le.
  apply (Z.mul_le_mono_pos_l _ _ b2 Hb).
  assert (E1 : a1 * b2 * c2 <= b1 * a2 * c2) by (apply Z.mul_le_mono_nonneg_r; lia).
  assert (E2 : b1 * c2 * a2 <= c1 * b2 * a2) by (apply Z.mul_le_mono_nonneg_r; lia).
  replace (b2 * (a1 * c2)) with (a1 * b2 * c2) by ring.
  replace (b2 * (c1 * a2)) with (c1 * b2 * a2) by ring.
  replace (b1 * a2 * c2) with (b1 * c2 * a2) in E1 by ring. lia.
Qed.

Lemma rlt_false_rle a b : rlt a b = false -> rle b a = true.
Proof. unfold rlt, rle. intro H. apply Z.ltb_ge in H. apply Z.leb_le. exact H. Qed.

Lemma rlt_rle_excl a b : rlt a b = true -> rle b a = true -> False.
Proof. unfold rlt, rle. intros H1 H2. apply Z.ltb_lt in H1. apply Z.leb_le in H2. lia. Qed.

Lemma bin_right_cons e edges2 d2 :
  bin_right (e :: edges2) d2 = (if rlt e d2 then 1 else 0) + bin_right edges2 d2.
Proof. unfold bin_right, rlt. cbn [filter]. destruct (_ <? _); cbn [length]; lia. Qed.

Lemma bin_right_zero edges2 d2 :
  (forall e, In e edges2 -> rlt e d2 = false) -> bin_right edges2 d2 = 0.
Proof.
  induction edges2 as [|e l IH]; intros H; [reflexivity|].
  rewrite bin_right_cons, (H e (or_introl eq_refl)), IH; [reflexivity|].
  intros x Hx. apply H. right. exact Hx.
Qed.

(* digitize right=True: for edges sorted increasingly (as rationals, positive denominators) the
   value k = bin_right splits the edges: e_i < d for i < k and d <= e_i for i >= k *)
Theorem bin_right_spec : forall edges2 d2,
  StronglySorted (fun a b => rle a b = true) edges2 ->
  (forall e, In e edges2 -> 0 < snd e) -> 0 < snd d2 ->
  forall i e, nth_error edges2 i = Some e ->
    (Z.of_nat i < bin_right edges2 d2 -> rlt e d2 = true) /\
    (bin_right edges2 d2 <= Z.of_nat i -> rle d2 e = true).
Proof.
  intros edges2 d2 Hs. induction Hs as [|h l Hs IH Hall]; intros Hpos Hd i e Hi.
  - destruct i; discriminate.
  - assert (Hposl : forall e, In e l -> 0 < snd e) by (intros x Hx; apply Hpos; right; exact Hx).
    rewrite bin_right_cons. destruct (rlt h d2) eqn:Eh.
    + destruct i as [|i]; cbn [nth_error] in Hi.
      * injection Hi as <-. split; [auto|]. intro H. pose proof (bin_right_range l d2). lia.
      * destruct (IH Hposl Hd i e Hi) as [H1 H2]. split; intro H; [apply H1|apply H2]; lia.
    + assert (Hz : bin_right l d2 = 0).
      { apply bin_right_zero. intros x Hx. destruct (rlt x d2) eqn:Ex; [|reflexivity]. exfalso.
        rewrite Forall_forall in Hall. specialize (Hall x Hx).
        apply (rlt_rle_excl x d2 Ex).
        apply (rle_trans d2 h x); auto.
        - apply Hpos. left. reflexivity.
        - apply rlt_false_rle. exact Eh. }
      rewrite Hz. split; [lia|]. intros _.
      destruct i as [|i]; cbn [nth_error] in Hi.
      * injection Hi as <-. apply rlt_false_rle. exact Eh.
      * apply nth_error_In in Hi. rewrite Forall_forall in Hall.
        apply (rle_trans d2 h e); auto.
        -- apply Hpos. left. reflexivity.
        -- apply rlt_false_rle. exact Eh.
Qed.
Print Assumptions bin_right_spec.

(* ... and k is the only such split point *)
Theorem bin_right_unique : forall edges2 d2 k,
  0 <= k <= Z.of_nat (length edges2) ->
  (forall i e, nth_error edges2 i = Some e ->
     (Z.of_nat i < k -> rlt e d2 = true) /\ (k <= Z.of_nat i -> rle d2 e = true)) ->
  StronglySorted (fun a b => rle a b = true) edges2 ->
  (forall e, In e edges2 -> 0 < snd e) -> 0 < snd d2 ->
  bin_right edges2 d2 = k.
Proof.
  intros edges2 d2 k Hk Hsplit Hs Hpos Hd.
  pose proof (bin_right_range edges2 d2) as Hr.
  pose proof (bin_right_spec edges2 d2 Hs Hpos Hd) as Hspec.
  destruct (Z.lt_trichotomy (bin_right edges2 d2) k) as [Hlt|[E|Hgt]]; [|exact E|]; exfalso.
  - set (i := Z.to_nat (bin_right edges2 d2)).
    destruct (nth_error edges2 i) as [e|] eqn:Ei.
    + destruct (Hsplit i e Ei) as [H1 _]. destruct (Hspec i e Ei) as [_ H2].
      apply (rlt_rle_excl e d2); [apply H1|apply H2]; subst i; lia.
    + apply nth_error_None in Ei. subst i. lia.
  - set (i := Z.to_nat k).
    destruct (nth_error edges2 i) as [e|] eqn:Ei.
    + destruct (Hsplit i e Ei) as [_ H1]. destruct (Hspec i e Ei) as [H2 _].
      apply (rlt_rle_excl e d2); [apply H2|apply H1]; subst i; lia.
    + apply nth_error_None in Ei. subst i. lia.
Qed.
Print Assumptions bin_right_unique.

Theorem bin_hist_range : forall edges2 d2, (1 <= length edges2)%nat ->
  -1 <= bin_hist edges2 d2 < Z.of_nat (length edges2) - 1.
Proof.
  intros edges2 d2 Hn. unfold bin_hist.
  pose proof (filter_length_le' (fun e => fst e * snd d2 <=? fst d2 * snd e) edges2) as Hf.
  set (below := Z.of_nat (length (filter _ edges2))) in *.
  destruct (Z.eqb_spec below 0); [lia|].
  destruct (Z.ltb_spec below (Z.of_nat (length edges2))); [lia|].
  destruct (existsb _ edges2); lia.
Qed.
Print Assumptions bin_hist_range.

(* without the length hypothesis: the value is -1 or a valid bin index 0 .. length-2 *)
Theorem bin_hist_range' : forall edges2 d2,
  bin_hist edges2 d2 = -1 \/ 0 <= bin_hist edges2 d2 <= Z.of_nat (length edges2) - 2.
Proof.
  intros edges2 d2. unfold bin_hist.
  pose proof (filter_length_le' (fun e => fst e * snd d2 <=? fst d2 * snd e) edges2) as Hf.
  set (below := Z.of_nat (length (filter _ edges2))) in *.
  destruct (Z.eqb_spec below 0); [lia|].
  destruct (Z.ltb_spec below (Z.of_nat (length edges2))); [lia|].
  destruct (existsb _ edges2); lia.
Qed.
Print Assumptions bin_hist_range'.

(* ====================================================================== *)
(* (3) state code                                                          *)
(* ====================================================================== *)
Theorem code_injective : forall i j k i' j' k',
  -1 <= i < 1000 -> -1 <= j < 999 -> -1 <= k < 999 ->
  -1 <= i' < 1000 -> -1 <= j' < 999 -> -1 <= k' < 999 ->
  code i j k = code i' j' k' -> i = i' /\ j = j' /\ k = k'.
Proof. unfold code. intros. lia. Qed.
Print Assumptions code_injective.

(* the first label is unconstrained; what matters is that the second and third stay below 999 *)
Theorem code_injective_strong : forall i j k i' j' k',
  -1 <= j < 999 -> -1 <= k < 999 -> -1 <= j' < 999 -> -1 <= k' < 999 ->
  code i j k = code i' j' k' -> i = i' /\ j = j' /\ k = k'.
Proof. unfold code. intros. lia. Qed.
Print Assumptions code_injective_strong.

Theorem code_collision_at_1000 : exists i j k i' j' k',
  (i, j, k) <> (i', j', k') /\ code i j k = code i' j' k' /\ -1 <= k <= 999 /\ -1 <= k' <= 999.
Proof.
  exists 0, 0, 999, 0, 1, (-1). split; [intro H; discriminate|]. split; [reflexivity|]. lia.
Qed.
Print Assumptions code_collision_at_1000.

(* ====================================================================== *)
(* (4) state names                                                         *)
(* ====================================================================== *)
Theorem at_state_sound : forall nlab i j k x,
  name_of nlab i j k = At x <-> (i = x /\ i <> -1).
Proof.
  intros nlab i j k x. unfold name_of.
  destruct (Z.eqb_spec i (-1)) as [->|Hne]; cbn [negb].
  - split; [|intros [_ H]; congruence].
    destruct ((j =? -1) || (k =? -1)); discriminate.
  - split; [intro H; injection H as <-; auto|intros [<- _]; reflexivity].
Qed.
Print Assumptions at_state_sound.

Theorem transit_state_sound : forall nlab i j k x y,
  name_of nlab i j k = Transit x y <-> (i = -1 /\ j = x /\ k = y /\ x <> -1 /\ y <> -1).
Proof.
  intros nlab i j k x y. unfold name_of.
  destruct (Z.eqb_spec i (-1)) as [->|Hne]; cbn [negb].
  - destruct (Z.eqb_spec j (-1)) as [->|Hj]; cbn [orb].
    + split; [discriminate|]. intros (_ & <- & _ & H & _). congruence.
    + destruct (Z.eqb_spec k (-1)) as [->|Hk].
      * split; [discriminate|]. intros (_ & _ & <- & _ & H). congruence.
      * split; [intro H; injection H as <- <-; auto|]. intros (_ & <- & <- & _). reflexivity.
  - split; [discriminate|]. intros [H _]. congruence.
Qed.
Print Assumptions transit_state_sound.

Theorem leaving_state_sound : forall nlab i j k x,
  name_of nlab i j k = Leaving x <->
  (i = -1 /\ ((j = -1 /\ x = nlab - 1) \/ (j <> -1 /\ k = -1 /\ x = j))).
Proof.
  intros nlab i j k x. unfold name_of.
  destruct (Z.eqb_spec i (-1)) as [->|Hne]; cbn [negb].
  - destruct (Z.eqb_spec j (-1)) as [->|Hj]; cbn [orb].
    + split; [intro H; injection H as <-; auto|]. intros [_ [[_ ->]|[H _]]]; congruence.
    + destruct (Z.eqb_spec k (-1)) as [->|Hk].
      * split; [intro H; injection H as <-; auto|]. intros [_ [[H _]|(_ & _ & ->)]]; congruence.
      * split; [discriminate|]. intros [_ [[H _]|(_ & H & _)]]; congruence.
  - split; [discriminate|]. intros [H _]. congruence.
Qed.
Print Assumptions leaving_state_sound.

Lemma lab_of_nonneg labels s : lab_of labels s <> -1 -> 0 <= s.
Proof. unfold lab_of. destruct (Z.ltb_spec s 0); [congruence|lia]. Qed.

(* an atom named '@x' in frame t sits at a site s >= 0 whose label is x *)
Theorem at_atom_sound : forall nlab labels hist t x,
  nth_error (names_of_atom nlab labels hist) t = Some (At x) ->
  exists s, nth_error hist t = Some s /\ 0 <= s /\ lab_of labels s = x /\ x <> -1.
Proof.
  intros nlab labels hist t x H. unfold names_of_atom in H.
  apply nth_error_zip_with in H. destruct H as (s & pn & Hs & _ & E).
  symmetry in E. apply at_state_sound in E. destruct E as [E Hne].
  exists s. split; [exact Hs|]. split; [apply (lab_of_nonneg labels); exact Hne|]. split; congruence.
Qed.
Print Assumptions at_atom_sound.

Lemma names_of_atom_length nlab labels hist : length (names_of_atom nlab labels hist) = length hist.
Proof.
  unfold names_of_atom. rewrite !zip_with_length, bfill_correct, ffill_correct.
  rewrite rev_length, !ffill_spec_length, rev_length. lia.
Qed.

(* converse: an atom at a labelled site is named '@label' *)
Theorem at_atom_complete : forall nlab labels hist t s,
  nth_error hist t = Some s -> lab_of labels s <> -1 ->
  nth_error (names_of_atom nlab labels hist) t = Some (At (lab_of labels s)).
Proof.
  intros nlab labels hist t s Hs Hne.
  assert (Ht : (t < length hist)%nat) by (apply nth_error_Some; congruence).
  destruct (nth_error (names_of_atom nlab labels hist) t) as [v|] eqn:Ev.
  - unfold names_of_atom in Ev. apply nth_error_zip_with in Ev.
    destruct Ev as (s' & pn & Hs' & _ & ->). rewrite Hs in Hs'. injection Hs' as <-.
    f_equal. apply at_state_sound. auto.
  - apply nth_error_None in Ev. rewrite names_of_atom_length in Ev. lia.
Qed.
Print Assumptions at_atom_complete.

(* an atom named 'x->y' in frame t has no site in frame t (NOSITE = -1); the most recent site before t
   is labelled x and the next site after t is labelled y *)
Theorem transit_atom_sound : forall nlab labels hist t x y,
  nth_error (names_of_atom nlab labels hist) t = Some (Transit x y) ->
  nth_error hist t = Some (-1) /\ x <> -1 /\ y <> -1 /\
  (exists j p, (j < t)%nat /\ nth_error hist j = Some p /\ 0 <= p /\ lab_of labels p = x /\
     forall m s, (j < m <= t)%nat -> nth_error hist m = Some s -> s = -1) /\
  (exists j n, (t < j)%nat /\ nth_error hist j = Some n /\ 0 <= n /\ lab_of labels n = y /\
     forall m s, (t <= m < j)%nat -> nth_error hist m = Some s -> s = -1).
Proof.
  intros nlab labels hist t x y H. unfold names_of_atom in H.
  apply nth_error_zip_with in H. destruct H as (s & pn & Hs & Hpn & E).
  apply nth_error_zip_with in Hpn. destruct Hpn as (p & n & Hp & Hn & ->). cbn [fst snd] in E.
  symmetry in E. apply transit_state_sound in E. destruct E as (Ei & Ej & Ek & Hx & Hy).
  rewrite ffill_correct in Hp. rewrite bfill_correct in Hn.
  assert (Ht : (t < length hist)%nat) by (apply nth_error_Some; congruence).
  (* forward part *)
  assert (Fwd : s = -1 /\ exists j p, (j < t)%nat /\ nth_error hist j = Some p /\ 0 <= p /\ lab_of labels p = x /\
     forall m s, (j < m <= t)%nat -> nth_error hist m = Some s -> s = -1).
  { apply ffill_spec_meaning in Hp. destruct Hp as [(j & z & Hj & Hz & Hne & -> & Hall)|[-> _]].
    - assert (Hjt : (j < t)%nat).
      { destruct (Nat.eq_dec j t) as [->|]; [|lia]. rewrite Hs in Hz. injection Hz as ->. congruence. }
      split; [apply (Hall t s); [lia|exact Hs]|].
      exists j, z. repeat split; auto. apply (lab_of_nonneg labels). congruence.
    - exfalso. apply Hx. rewrite <- Ej. reflexivity. }
  destruct Fwd as [-> Fwd]. split; [exact Hs|]. split; [exact Hx|]. split; [exact Hy|]. split; [exact Fwd|].
  (* backward part *)
  set (L := length hist) in *.
  assert (HL : length (ffill_spec (-1) (rev hist)) = L) by (rewrite ffill_spec_length, rev_length; reflexivity).
  rewrite nth_error_rev in Hn by lia. rewrite HL in Hn.
  apply ffill_spec_meaning in Hn. destruct Hn as [(j' & z & Hj' & Hz & Hne & -> & Hall)|[-> _]].
  - rewrite nth_error_rev in Hz by lia. fold L in Hz.
    assert (Hjt : (L - 1 - j' <> t)%nat).
    { intro E. rewrite E, Hs in Hz. injection Hz as <-. congruence. }
    exists (L - 1 - j')%nat, z. repeat split; auto; [lia|apply (lab_of_nonneg labels); congruence|].
    intros m s' Hm Hs'. apply (Hall (L - 1 - m)%nat s'); [lia|].
    rewrite nth_error_rev by lia. fold L. replace (L - 1 - (L - 1 - m))%nat with m by lia. exact Hs'.
  - exfalso. apply Hy. rewrite <- Ek. reflexivity.
Qed.
Print Assumptions transit_atom_sound.

(* ====================================================================== *)
(* (5) species-pair histogram                                              *)
(* ====================================================================== *)
Lemma filter_length_perm {A} (p : A -> bool) l l' :
  Permutation l l' -> length (filter p l) = length (filter p l').
Proof.
  induction 1 as [|x l l' _ IH|x y l|l l' l'' _ IH1 _ IH2]; cbn [filter].
  - reflexivity.
  - destruct (p x); cbn [length]; congruence.
  - destruct (p x), (p y); reflexivity.
  - congruence.
Qed.

Theorem hist_counts_perm : forall edges2 ds ds' k,
  Permutation ds ds' -> hist_counts edges2 ds k = hist_counts edges2 ds' k.
Proof.
  intros edges2 ds ds' k H. unfold hist_counts. f_equal. apply filter_length_perm. exact H.
Qed.
Print Assumptions hist_counts_perm.

Section Transpose.
  Context {A : Type}.

  (* transpose of a matrix with n columns *)
  Fixpoint transpose (n : nat) (m : list (list A)) : list (list A) :=
    match m with
    | [] => repeat [] n
    | r :: m' => zip_with cons r (transpose n m')
    end.

  Lemma transpose_length n m : (forall r, In r m -> length r = n) -> length (transpose n m) = n.
  Proof.
    induction m as [|r m IH]; intros H; cbn [transpose]; [apply repeat_length|].
    rewrite zip_with_length, (H r (or_introl eq_refl)), IH; [lia|].
    intros x Hx. apply H. right. exact Hx.
  Qed.

  Lemma concat_repeat_nil n : concat (repeat (@nil A) n) = [].
  Proof. induction n as [|n IH]; cbn [repeat concat app]; auto. Qed.

  Lemma concat_zip_cons : forall (r : list A) T, length r = length T ->
    Permutation (r ++ concat T) (concat (zip_with cons r T)).
  Proof.
    induction r as [|x r IH]; intros [|c T] Hlen; cbn [length] in Hlen; try discriminate.
    - cbn. constructor.
    - injection Hlen as Hlen. cbn [zip_with concat app]. constructor.
      rewrite <- (IH T Hlen). rewrite !app_assoc. apply Permutation_app_tail. apply Permutation_app_comm.
  Qed.

  Theorem transpose_perm : forall n m, (forall r, In r m -> length r = n) ->
    Permutation (concat m) (concat (transpose n m)).
  Proof.
    intros n m. induction m as [|r m IH]; intros H; cbn [transpose concat].
    - rewrite concat_repeat_nil. constructor.
    - assert (H' : forall x, In x m -> length x = n) by (intros x Hx; apply H; right; exact Hx).
      rewrite <- concat_zip_cons.
      + apply Permutation_app_head. apply IH. exact H'.
      + rewrite (H r (or_introl eq_refl)), transpose_length; auto.
  Qed.

  (* the (j, i) entry of the transpose is the (i, j) entry of the matrix *)
  Theorem transpose_entry : forall n m i j r, (forall r, In r m -> length r = n) ->
    nth_error m i = Some r -> (j < n)%nat ->
    exists c, nth_error (transpose n m) j = Some c /\ nth_error c i = nth_error r j.
  Proof.
    intros n m. induction m as [|r0 m IH]; intros i j r H Hi Hj; [destruct i; discriminate|].
    assert (H' : forall x, In x m -> length x = n) by (intros x Hx; apply H; right; exact Hx).
    cbn [transpose].
    destruct (nth_error r0 j) as [x|] eqn:Ex;
      [|apply nth_error_None in Ex; rewrite (H r0 (or_introl eq_refl)) in Ex; lia].
    destruct (nth_error (transpose n m) j) as [c'|] eqn:Ec;
      [|apply nth_error_None in Ec; rewrite transpose_length in Ec by exact H'; lia].
    exists (x :: c'). split; [apply nth_error_zip_with_intro; assumption|].
    destruct i as [|i]; cbn [nth_error] in *.
    - injection Hi as <-. symmetry. exact Ex.
    - destruct (IH i j r H' Hi Hj) as (c & Hc & E). rewrite Ec in Hc. injection Hc as <-. exact E.
  Qed.
End Transpose.
Print Assumptions transpose_perm.
Print Assumptions transpose_entry.

(* raw counts of the (species 2, species 1) matrix equal those of the (species 1, species 2) matrix *)
Theorem hist_counts_transpose : forall edges2 n (m : list (list (Z * Z))) k,
  (forall r, In r m -> length r = n) ->
  hist_counts edges2 (concat m) k = hist_counts edges2 (concat (transpose n m)) k.
Proof. intros edges2 n m k H. apply hist_counts_perm. apply transpose_perm. exact H. Qed.
Print Assumptions hist_counts_transpose.

(* every distance is in exactly one bin 0 .. length-2, or outside (-1) *)
Theorem hist_total : forall edges2 ds,
  zsum (map (hist_counts edges2 ds) (zrange 0 (length edges2 - 1))) + hist_counts edges2 ds (-1)
  = Z.of_nat (length ds).
Proof.
  intros edges2 ds.
  set (eqb' := fun a b : Z => b =? a).
  assert (Hspec : forall a b, eqb' a b = true <-> a = b).
  { intros a b. unfold eqb'. rewrite Z.eqb_eq. split; congruence. }
  pose proof (wsum_partition eqb' Hspec (bin_hist edges2) (fun _ => 1)
                (-1 :: zrange 0 (length edges2 - 1)) ds) as W.
  rewrite zsum_map_one in W. rewrite <- W.
  - cbn [map zsum].
    replace (1 * kcount eqb' (bin_hist edges2) (-1) ds) with (hist_counts edges2 ds (-1))
      by (unfold hist_counts, kcount, eqb'; lia).
    rewrite (zsum_map_ext (fun k => 1 * kcount eqb' (bin_hist edges2) k ds) (hist_counts edges2 ds)).
    + lia.
    + intros k _. unfold hist_counts, kcount, eqb'. lia.
  - constructor; [|apply zrange_NoDup]. intro H. apply zrange_in in H. lia.
  - intros d _. destruct (bin_hist_range' edges2 d) as [->|Hr]; [left; reflexivity|].
    right. apply zrange_in. lia.
Qed.
Print Assumptions hist_total.
