(* C02 -- theorems about the site-assignment model (Model/C02.v).
   S1  adm_from_spec, adm_from_ge, adm_from_sorted
   S2  ok_state_sound, ok_state_none, ok_state_complete
   S3  within_inner_outer, dist2_nonneg, inner_subset, inner_is_none_or_outer
   S4  dist2_triangle, spheres_disjoint_unique (+ qf_zero_eq, spheres_disjoint_unique_site,
       auto_radius_adm_unique)
   S5  remap_direct_correct, remap_rank_ok_if_all_visited, remap_rank_refuted
   S6  within_translate_common, within_wrap, within_rot, adm_from_translate_common,
       adm_from_wrap, adm_from_rot *)
From GV Require Import Base.Prelude Model.C01 Proofs.C01 Model.Geom Model.C02 Proofs.Geom.
From Coq Require Import Sorted.

(* ====================================================================== *)
(* sanity checks of the statements on concrete inputs                      *)
(* ====================================================================== *)

Definition sites_t : list V3 := [(0, 0, 0); (4, 0, 0); (0, 4, 0); (4, 4, 4)].
Definition rs_t : list (Z * Z) := [(700, 1); (700, 1); (2000, 1); (50, 1)].
Definition p_t : V3 := (1, 1, 0).

(* M_test, D = 8, K = 2: |p - s0|^2 = qf (1,1,0) = 26+18+2*(-1) = 42 *)
Goal dist2 8 G_test 2 p_t (0, 0, 0) = 42. Proof. vm_compute. reflexivity. Qed.
Goal map (dist2 8 G_test 2 p_t) sites_t = [42; 258; 194; 682]. Proof. vm_compute. reflexivity. Qed.
Goal adm_from 8 G_test 2 (1, 1) 10 sites_t rs_t p_t = [10; 11; 12]. Proof. vm_compute. reflexivity. Qed.
Goal adm_from 8 G_test 2 (1, 4) 10 sites_t rs_t p_t = [10; 12]. Proof. vm_compute. reflexivity. Qed.
Goal adm_from 8 G_test 2 (1, 100) 10 sites_t rs_t p_t = []. Proof. vm_compute. reflexivity. Qed.
Goal ok_state [10; 12] 12 = true /\ ok_state [10; 12] 11 = false /\ ok_state [10; 12] (-1) = false
     /\ ok_state [] (-1) = true /\ ok_state [] 3 = false /\ ok_state [] (-99) = true.
Proof. vm_compute. repeat split; reflexivity. Qed.
(* triangle inequality instance *)
Goal dist2 8 G_test 2 (0, 0, 0) (4, 0, 0) <= 2 * dist2 8 G_test 2 p_t (0, 0, 0) + 2 * dist2 8 G_test 2 p_t (4, 0, 0).
Proof. vm_compute. discriminate. Qed.
Goal spheres_disjoint 8 G_test 2 sites_t (50, 1) = true /\ spheres_disjoint 8 G_test 2 sites_t (200, 1) = false.
Proof. vm_compute. split; reflexivity. Qed.
(* invariances *)
Goal adm_from 8 G_test 2 (1, 4) 10 (map (fun s => vadd3 s (3, -5, 11)) sites_t) rs_t (vadd3 p_t (3, -5, 11))
     = adm_from 8 G_test 2 (1, 4) 10 sites_t rs_t p_t.
Proof. vm_compute. reflexivity. Qed.
Goal adm_from 8 G_test 2 (1, 4) 10 sites_t rs_t (vadd3 p_t (vscale3 8 (3, -5, 11)))
     = adm_from 8 G_test 2 (1, 4) 10 sites_t rs_t p_t.
Proof. vm_compute. reflexivity. Qed.
Goal adm_from 8 (gram_of (mmul3 M_test R_test)) 2 (1, 4) 10 sites_t rs_t p_t
     = adm_from 8 G_test 2 (1, 4) 10 sites_t rs_t p_t.
Proof. vm_compute. reflexivity. Qed.
(* remapping *)
Goal remap_rank [0; 2; 4] [0; 2] [0; 2] = [0; 2] /\ remap_direct [0; 2; 4] [0; 2] = [0; 4].
Proof. vm_compute. split; reflexivity. Qed.
Goal remap_rank [0; 2; 4] [0; 1; 2] [0; 2; 1; 1] = remap_direct [0; 2; 4] [0; 2; 1; 1].
Proof. vm_compute. reflexivity. Qed.

(* ====================================================================== *)
(* S1  admissible set                                                      *)
(* ====================================================================== *)

Theorem adm_from_spec : forall D G K f ss rs p k0 k,
  In k (adm_from D G K f k0 ss rs p) <->
  exists i s r, nth_error ss i = Some s /\ nth_error rs i = Some r /\ k = k0 + Z.of_nat i
                /\ within D G K p s r f = true.
Proof.
  intros D G K f ss. induction ss as [|s ss IH]; intros rs p k0 k.
  - cbn [adm_from]. split; [contradiction|]. intros (i & s & r & H & _). destruct i; discriminate.
  - destruct rs as [|r rs].
    + cbn [adm_from]. split; [contradiction|]. intros (i & s' & r' & _ & H & _). destruct i; discriminate.
    + cbn [adm_from]. rewrite in_app_iff, IH. split.
      * intros [H|(i & s' & r' & Hs & Hr & Hk & Hw)].
        -- destruct (within D G K p s r f) eqn:E; [|contradiction]. destruct H as [<-|[]].
           exists 0%nat, s, r. cbn [nth_error]. repeat split; auto. lia.
        -- exists (S i), s', r'. cbn [nth_error]. repeat split; auto. lia.
      * intros (i & s' & r' & Hs & Hr & Hk & Hw). destruct i as [|i].
        -- cbn [nth_error] in Hs, Hr. inversion Hs; inversion Hr; subst. left. rewrite Hw. left. lia.
        -- right. exists i, s', r'. cbn [nth_error] in Hs, Hr. repeat split; auto. lia.
Qed.
Print Assumptions adm_from_spec.

Theorem adm_from_ge : forall D G K f ss rs p k0 k,
  In k (adm_from D G K f k0 ss rs p) -> k0 <= k < k0 + Z.of_nat (length ss).
Proof.
  intros D G K f ss rs p k0 k H. apply adm_from_spec in H.
  destruct H as (i & s & r & Hs & _ & Hk & _).
  assert (i < length ss)%nat by (apply nth_error_Some; congruence). lia.
Qed.
Print Assumptions adm_from_ge.

(* the indices are strictly increasing *)
Theorem adm_from_sorted : forall D G K f ss rs p k0,
  StronglySorted Z.lt (adm_from D G K f k0 ss rs p).
Proof.
  intros D G K f ss. induction ss as [|s ss IH]; intros rs p k0; [constructor|].
  destruct rs as [|r rs]; [constructor|]. cbn [adm_from].
  destruct (within D G K p s r f); cbn [app]; [|apply IH].
  constructor; [apply IH|]. apply Forall_forall. intros x Hx. apply adm_from_ge in Hx. lia.
Qed.
Print Assumptions adm_from_sorted.

Corollary adm_from_NoDup : forall D G K f ss rs p k0, NoDup (adm_from D G K f k0 ss rs p).
Proof.
  intros. pose proof (adm_from_sorted D G K f ss rs p k0) as H.
  induction H as [|a l Hs IH Hall]; constructor; [|exact IH].
  intro Hin. rewrite Forall_forall in Hall. specialize (Hall a Hin). lia.
Qed.
Print Assumptions adm_from_NoDup.

(* ====================================================================== *)
(* S2  acceptable states                                                   *)
(* ====================================================================== *)

Lemma existsb_eqb_in st l : existsb (Z.eqb st) l = true <-> In st l.
Proof.
  rewrite existsb_exists. split.
  - intros [x [Hin Hx]]. apply Z.eqb_eq in Hx. subst. exact Hin.
  - intro H. exists st. split; [exact H|apply Z.eqb_refl].
Qed.

Theorem ok_state_sound : forall adm st, ok_state adm st = true -> st <> -99 ->
  (adm = [] /\ st = -1) \/ (adm <> [] /\ In st adm).
Proof.
  intros adm st H Hne. unfold ok_state in H. rewrite (eqb_neq _ _ Hne) in H. cbn [orb] in H.
  destruct adm as [|a adm].
  - left. apply Z.eqb_eq in H. auto.
  - right. split; [discriminate|]. apply existsb_eqb_in. exact H.
Qed.
Print Assumptions ok_state_sound.

Theorem ok_state_none : forall st, ok_state [] st = true -> st <> -99 -> st = -1.
Proof.
  intros st H Hne. destruct (ok_state_sound [] st H Hne) as [[_ E]|[E _]]; [exact E|congruence].
Qed.
Print Assumptions ok_state_none.

(* the converse: ok_state accepts exactly these states *)
Theorem ok_state_complete : forall adm st,
  ((adm = [] /\ st = -1) \/ (adm <> [] /\ In st adm)) -> ok_state adm st = true.
Proof.
  intros adm st [[-> ->]|[Hne Hin]]; [reflexivity|].
  unfold ok_state. destruct adm as [|a adm]; [congruence|].
  apply existsb_eqb_in in Hin. rewrite Hin. apply orb_true_r.
Qed.
Print Assumptions ok_state_complete.

(* "no site" is reported exactly when no sphere contains the atom *)
Theorem ok_state_minus1_iff : forall adm st, ok_state adm st = true -> st <> -99 ->
  (forall k, In k adm -> 0 <= k) -> (st = -1 <-> adm = []).
Proof.
  intros adm st H Hne Hpos. destruct (ok_state_sound adm st H Hne) as [[-> ->]|[Hn Hin]].
  - tauto.
  - split; [|contradiction]. intros ->. specialize (Hpos _ Hin). lia.
Qed.
Print Assumptions ok_state_minus1_iff.

(* ====================================================================== *)
(* S3  inner sites                                                         *)
(* ====================================================================== *)

(* the arithmetic core; only 0 <= fst r and 0 < fst f <= snd f are needed *)
Lemma within_inner_outer_gen : forall D G K p s r f, 0 <= fst r -> 0 < fst f <= snd f ->
  within D G K p s r f = true -> within D G K p s r (1, 1) = true.
Proof.
  intros D G K p s [nr dr] [nf df]. unfold within. cbn [fst snd]. intros Hnr Hf H.
  apply Z.ltb_lt in H. apply Z.ltb_lt. set (d := dist2 D G K p s) in *.
  rewrite !Z.mul_1_r.
  destruct (Z.lt_ge_cases (d * dr) nr) as [Hlt|Hge]; [exact Hlt|exfalso].
  assert (A : nr * df <= d * dr * df) by (apply Z.mul_le_mono_nonneg_r; lia).
  assert (B : nr * nf <= nr * df) by (apply Z.mul_le_mono_nonneg_l; lia).
  lia.
Qed.

Theorem within_inner_outer : forall D G K p s r f,
  0 < snd r -> 0 <= fst r -> 0 < fst f <= snd f -> 0 <= dist2 D G K p s ->
  within D G K p s r f = true -> within D G K p s r (1, 1) = true.
Proof. intros D G K p s r f _ Hr Hf _. apply within_inner_outer_gen; assumption. Qed.
Print Assumptions within_inner_outer.

Theorem dist2_nonneg : forall D M K p s, 0 <= K -> 0 <= dist2 D (gram_of M) K p s.
Proof.
  intros D M K p s HK. unfold dist2.
  destruct (min_image_achieved D (gram_of M) K (vsub3 p s) HK) as [n ->]. apply qf_nonneg.
Qed.
Print Assumptions dist2_nonneg.

Theorem inner_subset : forall D M K f k0 ss rs p,
  0 <= K -> (forall r, In r rs -> 0 < snd r /\ 0 <= fst r) -> 0 < fst f <= snd f ->
  forall k, In k (adm_from D (gram_of M) K f k0 ss rs p) ->
            In k (adm_from D (gram_of M) K (1, 1) k0 ss rs p).
Proof.
  intros D M K f k0 ss rs p HK Hrs Hf k H. apply adm_from_spec in H. apply adm_from_spec.
  destruct H as (i & s & r & Hs & Hr & Hk & Hw). exists i, s, r. repeat split; auto.
  destruct (Hrs r (nth_error_In _ _ Hr)) as [Hd Hn].
  apply (within_inner_outer D (gram_of M) K p s r f Hd Hn Hf (dist2_nonneg D M K p s HK) Hw).
Qed.
Print Assumptions inner_subset.

(* the same for an arbitrary Gram matrix (no positivity of the distance is needed) *)
Theorem inner_subset_gen : forall D G K f k0 ss rs p,
  (forall r, In r rs -> 0 <= fst r) -> 0 < fst f <= snd f ->
  forall k, In k (adm_from D G K f k0 ss rs p) -> In k (adm_from D G K (1, 1) k0 ss rs p).
Proof.
  intros D G K f k0 ss rs p Hrs Hf k H. apply adm_from_spec in H. apply adm_from_spec.
  destruct H as (i & s & r & Hs & Hr & Hk & Hw). exists i, s, r. repeat split; auto.
  apply (within_inner_outer_gen D G K p s r f (Hrs r (nth_error_In _ _ Hr)) Hf Hw).
Qed.
Print Assumptions inner_subset_gen.

(* if at most one outer sphere contains the atom, the inner state is "none" or the outer state *)
Theorem inner_is_none_or_outer : forall adm_i adm_o i o,
  (forall k, In k adm_i -> In k adm_o) ->
  (forall a b, In a adm_o -> In b adm_o -> a = b) ->
  ok_state adm_i i = true -> ok_state adm_o o = true -> i <> -99 -> o <> -99 ->
  i = -1 \/ i = o.
Proof.
  intros adm_i adm_o i o Hsub Huniq Hi Ho Hin Hon.
  destruct (ok_state_sound adm_i i Hi Hin) as [[_ E]|[_ Hini]]; [left; exact E|right].
  apply Hsub in Hini.
  destruct (ok_state_sound adm_o o Ho Hon) as [[E _]|[_ Hino]]; [subst; contradiction|].
  apply Huniq; assumption.
Qed.
Print Assumptions inner_is_none_or_outer.

(* instantiated with the model's admissible lists *)
Corollary inner_is_none_or_outer_adm : forall D M K f k0 ss rs p i o,
  0 <= K -> (forall r, In r rs -> 0 < snd r /\ 0 <= fst r) -> 0 < fst f <= snd f ->
  (forall a b, In a (adm_from D (gram_of M) K (1, 1) k0 ss rs p) ->
               In b (adm_from D (gram_of M) K (1, 1) k0 ss rs p) -> a = b) ->
  ok_state (adm_from D (gram_of M) K f k0 ss rs p) i = true ->
  ok_state (adm_from D (gram_of M) K (1, 1) k0 ss rs p) o = true ->
  i <> -99 -> o <> -99 -> i = -1 \/ i = o.
Proof.
  intros D M K f k0 ss rs p i o HK Hrs Hf Hu Hi Ho Hin Hon.
  apply (inner_is_none_or_outer _ _ i o (inner_subset D M K f k0 ss rs p HK Hrs Hf) Hu Hi Ho Hin Hon).
Qed.
Print Assumptions inner_is_none_or_outer_adm.

(* ====================================================================== *)
(* S4  automatic radius => unique assignment                               *)
(* ====================================================================== *)

Lemma parallelogram G x y : qf G (vsub3 y x) + qf G (vadd3 y x) = 2 * qf G x + 2 * qf G y.
Proof. dv x; dv y. vunf. ring. Qed.

Lemma vadd3_cart M x y : cart M (vadd3 x y) = vadd3 (cart M x) (cart M y).
Proof. dm M; dv x; dv y. veq. Qed.

Lemma diff_of_images D p s t n1 n2 :
  vsub3 (vadd3 (vsub3 p t) (vscale3 D n2)) (vadd3 (vsub3 p s) (vscale3 D n1))
  = vadd3 (vsub3 s t) (vscale3 D (vsub3 n2 n1)).
Proof. dv p; dv s; dv t; dv n1; dv n2. veq. Qed.

Theorem dist2_triangle : forall D M K p s t, 0 < D -> 0 <= K -> window_ok M K = true ->
  dist2 D (gram_of M) K s t <= 2 * dist2 D (gram_of M) K p s + 2 * dist2 D (gram_of M) K p t.
Proof.
  intros D M K p s t HD HK Hok. unfold dist2.
  destruct (window_sufficient M K D (vsub3 p s) HD HK Hok) as [[n1 H1] _].
  destruct (window_sufficient M K D (vsub3 p t) HD HK Hok) as [[n2 H2] _].
  destruct (window_sufficient M K D (vsub3 s t) HD HK Hok) as [_ H3].
  specialize (H3 (vsub3 n2 n1)). rewrite <- diff_of_images with (p := p) in H3.
  set (x := vadd3 (vsub3 p s) (vscale3 D n1)) in *.
  set (y := vadd3 (vsub3 p t) (vscale3 D n2)) in *.
  pose proof (parallelogram (gram_of M) x y) as Hp.
  pose proof (qf_nonneg M (vadd3 y x)) as Hn.
  lia.
Qed.
Print Assumptions dist2_triangle.

Lemma spheres_disjoint_spec D G K sites r s t :
  spheres_disjoint D G K sites r = true -> In s sites -> In t sites ->
  qf G (vsub3 s t) = 0 \/ 4 * fst r <= dist2 D G K s t * snd r.
Proof.
  unfold spheres_disjoint. intros H Hs Ht. rewrite forallb_forall in H.
  specialize (H s Hs). rewrite forallb_forall in H. specialize (H t Ht).
  apply orb_true_iff in H. destruct H as [H|H]; [left; apply Z.eqb_eq; exact H|right; apply Z.leb_le; exact H].
Qed.

Theorem spheres_disjoint_unique : forall D M K sites r p s t,
  0 < D -> 0 <= K -> window_ok M K = true ->
  spheres_disjoint D (gram_of M) K sites r = true -> 0 < snd r -> In s sites -> In t sites ->
  within D (gram_of M) K p s r (1, 1) = true -> within D (gram_of M) K p t r (1, 1) = true ->
  qf (gram_of M) (vsub3 s t) = 0.
Proof.
  intros D M K sites [nr dr] p s t HD HK Hok Hsd Hdr Hs Ht Hws Hwt. cbn [fst snd] in *.
  destruct (spheres_disjoint_spec _ _ _ _ _ _ _ Hsd Hs Ht) as [H0|Hfar]; [exact H0|exfalso].
  cbn [fst snd] in Hfar. unfold within in Hws, Hwt. cbn [fst snd] in Hws, Hwt.
  apply Z.ltb_lt in Hws. apply Z.ltb_lt in Hwt. rewrite !Z.mul_1_r in Hws, Hwt.
  pose proof (dist2_triangle D M K p s t HD HK Hok) as Htri.
  set (a := dist2 D (gram_of M) K p s) in *. set (b := dist2 D (gram_of M) K p t) in *.
  set (c := dist2 D (gram_of M) K s t) in *.
  assert (E : c * dr <= (2 * a + 2 * b) * dr) by (apply Z.mul_le_mono_nonneg_r; lia).
  replace ((2 * a + 2 * b) * dr) with (2 * (a * dr) + 2 * (b * dr)) in E by ring.
  lia.
Qed.
Print Assumptions spheres_disjoint_unique.

(* a non-degenerate cell has a positive definite Gram matrix: zero length means zero vector *)
Lemma dot3_self_zero w : dot3 w w = 0 -> w = (0, 0, 0).
Proof.
  dv w. vunf. intro H.
  pose proof (Z.square_nonneg w1) as H1. pose proof (Z.square_nonneg w2) as H2.
  pose proof (Z.square_nonneg w3) as H3. unfold Z.square in *.
  assert (E1 : w1 * w1 = 0) by lia. assert (E2 : w2 * w2 = 0) by lia. assert (E3 : w3 * w3 = 0) by lia.
  apply Z.mul_eq_0 in E1. apply Z.mul_eq_0 in E2. apply Z.mul_eq_0 in E3.
  f_equal; [f_equal|]; tauto.
Qed.

Theorem qf_zero_eq : forall M v, det3 M <> 0 -> qf (gram_of M) v = 0 -> v = (0, 0, 0).
Proof.
  intros M v Hdet H. rewrite qf_cart in H. apply dot3_self_zero in H. dv v.
  pose proof (normal1_cart M v1 v2 v3) as E1. pose proof (normal2_cart M v1 v2 v3) as E2.
  pose proof (normal3_cart M v1 v2 v3) as E3. rewrite H in E1, E2, E3.
  assert (Z0 : forall N, dot3 N (0, 0, 0) = 0) by (intro N; dv N; vunf; ring).
  rewrite Z0 in E1, E2, E3. symmetry in E1, E2, E3.
  apply Z.mul_eq_0 in E1. apply Z.mul_eq_0 in E2. apply Z.mul_eq_0 in E3.
  f_equal; [f_equal|]; tauto.
Qed.
Print Assumptions qf_zero_eq.

Lemma vsub3_zero s t : vsub3 s t = (0, 0, 0) -> s = t.
Proof. dv s; dv t. vunf. intro H. inversion H. f_equal; [f_equal|]; lia. Qed.

Theorem spheres_disjoint_unique_site : forall D M K sites r p s t,
  0 < D -> 0 <= K -> window_ok M K = true ->
  spheres_disjoint D (gram_of M) K sites r = true -> 0 < snd r -> In s sites -> In t sites ->
  within D (gram_of M) K p s r (1, 1) = true -> within D (gram_of M) K p t r (1, 1) = true ->
  s = t.
Proof.
  intros D M K sites r p s t HD HK Hok Hsd Hdr Hs Ht Hws Hwt.
  apply vsub3_zero. apply (qf_zero_eq M); [apply (window_ok_spec M K Hok)|].
  apply (spheres_disjoint_unique D M K sites r p s t); assumption.
Qed.
Print Assumptions spheres_disjoint_unique_site.

(* with one common automatic radius and pairwise distinct site centres, at most one index is admissible *)
Theorem auto_radius_adm_unique : forall D M K ss r p k0 a b,
  0 < D -> 0 <= K -> window_ok M K = true -> NoDup ss ->
  spheres_disjoint D (gram_of M) K ss r = true -> 0 < snd r ->
  In a (adm_from D (gram_of M) K (1, 1) k0 ss (repeat r (length ss)) p) ->
  In b (adm_from D (gram_of M) K (1, 1) k0 ss (repeat r (length ss)) p) -> a = b.
Proof.
  intros D M K ss r p k0 a b HD HK Hok Hnd Hsd Hdr Ha Hb.
  apply adm_from_spec in Ha. apply adm_from_spec in Hb.
  destruct Ha as (i & s & r1 & Hs & Hr1 & -> & Hws). destruct Hb as (j & t & r2 & Ht & Hr2 & -> & Hwt).
  apply nth_error_In, repeat_spec in Hr1. apply nth_error_In, repeat_spec in Hr2. subst r1 r2.
  assert (E : s = t).
  { apply (spheres_disjoint_unique_site D M K ss r p s t); auto; eapply nth_error_In; eassumption. }
  subst t. rewrite NoDup_nth_error in Hnd.
  assert (i = j); [|subst; reflexivity].
  apply Hnd; [apply nth_error_Some; congruence|congruence].
Qed.
Print Assumptions auto_radius_adm_unique.

(* ====================================================================== *)
(* S5  label-group remapping                                               *)
(* ====================================================================== *)

Theorem remap_direct_correct : forall key a i x, nth_error a i = Some x -> 0 <= x ->
  nth_error (remap_direct key a) i = Some (znth (-7) key x).
Proof. intros key a i x H _. unfold remap_direct. apply map_nth_error. exact H. Qed.
Print Assumptions remap_direct_correct.

Lemma filter_ltb_zrange_nil : forall n t x, x <= t -> filter (fun p => p <? x) (zrange t n) = [].
Proof.
  induction n as [|n IH]; intros t x H; [reflexivity|]. cbn [zrange filter].
  destruct (Z.ltb_spec t x); [lia|]. apply IH. lia.
Qed.

Lemma rank_in_zrange : forall n t x, t <= x <= t + Z.of_nat n -> rank_in (zrange t n) x = Z.to_nat (x - t).
Proof.
  unfold rank_in. induction n as [|n IH]; intros t x H.
  - cbn [zrange filter length]. replace (x - t) with 0 by lia. reflexivity.
  - cbn [zrange filter]. destruct (Z.ltb_spec t x).
    + cbn [length]. rewrite IH by lia. lia.
    + rewrite filter_ltb_zrange_nil by lia. cbn [length]. replace (x - t) with 0 by lia. reflexivity.
Qed.

(* when every group member is visited the palette is 0..n-1 and the rank of x is x itself *)
Theorem remap_rank_zrange : forall key n a, (forall x, In x a -> 0 <= x < Z.of_nat n) ->
  remap_rank key (zrange 0 n) a = remap_direct key a.
Proof.
  intros key n a H. unfold remap_rank, remap_direct. apply map_ext_in. intros x Hx.
  specialize (H x Hx). rewrite rank_in_zrange by lia. unfold znth.
  destruct (Z.ltb_spec x 0); [lia|]. rewrite Z.sub_0_r. reflexivity.
Qed.
Print Assumptions remap_rank_zrange.

Theorem remap_rank_ok_if_all_visited : forall key palette n a,
  palette = zrange 0 n -> length key = n -> (forall x, In x a -> 0 <= x < Z.of_nat n) ->
  remap_rank key palette a = remap_direct key a.
Proof. intros key palette n a -> _ H. apply remap_rank_zrange. exact H. Qed.
Print Assumptions remap_rank_ok_if_all_visited.

(* the code before the repair: label group {0,2,4}, members 0 and 2 visited, member 1 never;
   the hit on member 2 (site 4) is reported as site 2 *)
Theorem remap_rank_refuted : exists key palette a,
  StronglySorted Z.lt palette /\ (forall x, In x palette <-> In x a) /\
  (forall x, In x a -> 0 <= x < Z.of_nat (length key)) /\
  remap_rank key palette a <> remap_direct key a.
Proof.
  exists [0; 2; 4], [0; 2], [0; 2]. repeat split.
  - repeat constructor.
  - exact (fun H => H).
  - exact (fun H => H).
  - cbn in H. lia.
  - cbn in H. cbn. lia.
  - vm_compute. discriminate.
Qed.
Print Assumptions remap_rank_refuted.

Goal remap_rank [0; 2; 4] [0; 2] [0; 2] = [0; 2] /\ remap_direct [0; 2; 4] [0; 2] = [0; 4].
Proof. vm_compute. split; reflexivity. Qed.

(* ====================================================================== *)
(* S6  invariances                                                         *)
(* ====================================================================== *)

Lemma vsub3_translate_common p s v : vsub3 (vadd3 p v) (vadd3 s v) = vsub3 p s.
Proof. dv p; dv s; dv v. veq. Qed.

Lemma vsub3_wrap D p s n : vsub3 (vadd3 p (vscale3 D n)) s = vadd3 (vsub3 p s) (vscale3 D n).
Proof. dv p; dv s; dv n. veq. Qed.

(* translating atoms and sites together: holds for every Gram matrix, no side condition *)
Theorem dist2_translate_common : forall D G K p s v,
  dist2 D G K (vadd3 p v) (vadd3 s v) = dist2 D G K p s.
Proof. intros. unfold dist2. rewrite vsub3_translate_common. reflexivity. Qed.
Print Assumptions dist2_translate_common.

Theorem within_translate_common : forall D G K p s v r f,
  within D G K (vadd3 p v) (vadd3 s v) r f = within D G K p s r f.
Proof. intros. unfold within. rewrite dist2_translate_common. reflexivity. Qed.
Print Assumptions within_translate_common.

(* wrapping an atom through cell faces *)
Theorem dist2_wrap : forall D M K p s n, 0 < D -> 0 <= K -> window_ok M K = true ->
  dist2 D (gram_of M) K (vadd3 p (vscale3 D n)) s = dist2 D (gram_of M) K p s.
Proof.
  intros D M K p s n HD HK Hok. unfold dist2. rewrite vsub3_wrap.
  apply min_image_d2_translate; assumption.
Qed.
Print Assumptions dist2_wrap.

Theorem within_wrap : forall D M K p s n r f, 0 < D -> 0 <= K -> window_ok M K = true ->
  within D (gram_of M) K (vadd3 p (vscale3 D n)) s r f = within D (gram_of M) K p s r f.
Proof. intros D M K p s n r f HD HK Hok. unfold within. rewrite dist2_wrap by assumption. reflexivity. Qed.
Print Assumptions within_wrap.

(* wrapping a site through cell faces *)
Lemma vsub3_wrap_site D p s n : vsub3 p (vadd3 s (vscale3 D n)) = vadd3 (vsub3 p s) (vscale3 D (vneg3 n)).
Proof. dv p; dv s; dv n. veq. Qed.

Theorem within_wrap_site : forall D M K p s n r f, 0 < D -> 0 <= K -> window_ok M K = true ->
  within D (gram_of M) K p (vadd3 s (vscale3 D n)) r f = within D (gram_of M) K p s r f.
Proof.
  intros D M K p s n r f HD HK Hok. unfold within, dist2. rewrite vsub3_wrap_site.
  rewrite min_image_d2_translate by assumption. reflexivity.
Qed.
Print Assumptions within_wrap_site.

(* the distance is symmetric *)
Lemma vsub3_swap p s : vsub3 s p = vneg3 (vsub3 p s).
Proof. dv p; dv s. veq. Qed.

Theorem dist2_sym : forall D M K p s, 0 < D -> 0 <= K -> window_ok M K = true ->
  dist2 D (gram_of M) K s p = dist2 D (gram_of M) K p s.
Proof.
  intros D M K p s HD HK Hok. unfold dist2. rewrite vsub3_swap. apply min_image_d2_neg; assumption.
Qed.
Print Assumptions dist2_sym.

(* rigid rotation of the cell *)
Theorem within_rot : forall D M R K p s r f, orthogonal3 R ->
  within D (gram_of (mmul3 M R)) K p s r f = within D (gram_of M) K p s r f.
Proof. intros D M R K p s r f H. rewrite (gram_of_rot M R H). reflexivity. Qed.
Print Assumptions within_rot.

Lemma adm_from_ext : forall D G K f D' G' K' f' (g : V3 -> V3) p p',
  (forall s r, within D' G' K' p' (g s) r f' = within D G K p s r f) ->
  forall ss rs k0, adm_from D' G' K' f' k0 (map g ss) rs p' = adm_from D G K f k0 ss rs p.
Proof.
  intros D G K f D' G' K' f' g p p' H. induction ss as [|s ss IH]; intros rs k0; [reflexivity|].
  destruct rs as [|r rs]; [reflexivity|]. cbn [map adm_from]. rewrite H, IH. reflexivity.
Qed.

Theorem adm_from_translate_common : forall D G K f k0 ss rs p v,
  adm_from D G K f k0 (map (fun s => vadd3 s v) ss) rs (vadd3 p v) = adm_from D G K f k0 ss rs p.
Proof.
  intros. apply (adm_from_ext D G K f D G K f (fun s => vadd3 s v) p (vadd3 p v)).
  intros s r. apply within_translate_common.
Qed.
Print Assumptions adm_from_translate_common.

Theorem adm_from_wrap : forall D M K f k0 ss rs p n, 0 < D -> 0 <= K -> window_ok M K = true ->
  adm_from D (gram_of M) K f k0 ss rs (vadd3 p (vscale3 D n)) = adm_from D (gram_of M) K f k0 ss rs p.
Proof.
  intros D M K f k0 ss rs p n HD HK Hok.
  rewrite <- (map_id ss) at 1.
  apply (adm_from_ext D (gram_of M) K f D (gram_of M) K f (fun s => s) p (vadd3 p (vscale3 D n))).
  intros s r. apply within_wrap; assumption.
Qed.
Print Assumptions adm_from_wrap.

Theorem adm_from_rot : forall D M R K f k0 ss rs p, orthogonal3 R ->
  adm_from D (gram_of (mmul3 M R)) K f k0 ss rs p = adm_from D (gram_of M) K f k0 ss rs p.
Proof. intros D M R K f k0 ss rs p H. rewrite (gram_of_rot M R H). reflexivity. Qed.
Print Assumptions adm_from_rot.

(* permuting (or selecting) the sites permutes the admissible indices: position i of the permuted
   site list is admissible exactly when the original position perm[i] is *)
Theorem adm_perm : forall D G K f ss rs p perm ds dr i,
  length rs = length ss -> (forall j, In j perm -> (j < length ss)%nat) ->
  (In (Z.of_nat i) (adm_from D G K f 0 (map (fun j => nth j ss ds) perm) (map (fun j => nth j rs dr) perm) p)
   <-> exists j, nth_error perm i = Some j /\ In (Z.of_nat j) (adm_from D G K f 0 ss rs p)).
Proof.
  intros D G K f ss rs p perm ds dr i Hlen Hperm. rewrite adm_from_spec. split.
  - intros (i' & s & r & Hs & Hr & Hk & Hw). assert (i' = i) by lia. subst i'.
    rewrite nth_error_map in Hs, Hr. destruct (nth_error perm i) as [j|] eqn:Ej; [|discriminate].
    cbn [option_map] in Hs, Hr. inversion Hs; inversion Hr; subst.
    exists j. split; [reflexivity|]. apply adm_from_spec.
    pose proof (Hperm j (nth_error_In _ _ Ej)) as Hj.
    exists j, (nth j ss ds), (nth j rs dr). repeat split; auto.
    + apply nth_error_nth'. exact Hj.
    + apply nth_error_nth'. lia.
  - intros (j & Ej & Hin). apply adm_from_spec in Hin.
    destruct Hin as (j' & s & r & Hs & Hr & Hk & Hw). assert (j' = j) by lia. subst j'.
    exists i, s, r. rewrite !nth_error_map, Ej. cbn [option_map].
    rewrite (nth_error_nth _ _ ds Hs), (nth_error_nth _ _ dr Hr). repeat split; auto.
Qed.
Print Assumptions adm_perm.

Goal adm_from 8 G_test 2 (1, 4) 0 (map (fun j => nth j sites_t (0,0,0)) [2; 3; 0; 1]%nat)
       (map (fun j => nth j rs_t (0,0)) [2; 3; 0; 1]%nat) p_t = [0; 2]
  /\ adm_from 8 G_test 2 (1, 4) 0 sites_t rs_t p_t = [0; 2].
Proof. vm_compute. split; reflexivity. Qed.
