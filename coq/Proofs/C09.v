(* C09 -- theorems about the free-energy model (Model/C09.v): F = -kT ln p. *)
From Coq Require Import Reals List Lra.
From GV Require Import Model.C09.
Import ListNotations.
Open Scope R_scope.

(* ====================================================================== *)
(* auxiliary facts                                                         *)
(* ====================================================================== *)

Lemma ln_le_compat x y : 0 < x -> x <= y -> ln x <= ln y.
Proof.
  intros Hx [Hlt | Heq].
  - left. apply ln_increasing; assumption.
  - subst y. right. reflexivity.
Qed.

Lemma free_energy_pos kT p : 0 < p -> free_energy kT p = - kT * ln p.
Proof.
  intro Hp. unfold free_energy. destruct (Req_EM_T p 0) as [E | _]; [lra | reflexivity].
Qed.

Lemma rsum_map_div t : forall cs, rsum (map (fun c => c / t) cs) = rsum cs / t.
Proof.
  induction cs as [|x cs IH]; cbn [map rsum].
  - unfold Rdiv. ring.
  - rewrite IH. unfold Rdiv. ring.
Qed.

Lemma rsum_nonneg : forall cs, (forall c, In c cs -> 0 <= c) -> 0 <= rsum cs.
Proof.
  induction cs as [|x cs IH]; intros H; cbn [rsum]; [lra|].
  assert (0 <= x) by (apply H; left; reflexivity).
  assert (0 <= rsum cs) by (apply IH; intros c Hc; apply H; right; exact Hc).
  lra.
Qed.

Lemma rsum_map_ext_in (f g : R -> R) : forall cs,
  (forall c, In c cs -> f c = g c) -> rsum (map f cs) = rsum (map g cs).
Proof.
  intros cs H. rewrite (map_ext_in f g cs H). reflexivity.
Qed.

Lemma prob_zero_iff c total : total <> 0 -> (prob c total = 0 <-> c = 0).
Proof.
  intro Ht. unfold prob. split.
  - intro H. replace c with (c / total * total) by (field; exact Ht). rewrite H. ring.
  - intro H. subst c. unfold Rdiv. ring.
Qed.

(* ====================================================================== *)
(* (1) exp(-F/kT) recovers p                                               *)
(* ====================================================================== *)

Theorem exp_recovers : forall kT p, 0 < kT -> 0 < p -> exp (- free_energy kT p / kT) = p.
Proof.
  intros kT p HkT Hp. rewrite (free_energy_pos kT p Hp).
  replace (- (- kT * ln p) / kT) with (ln p) by (field; lra).
  apply exp_ln. exact Hp.
Qed.
Print Assumptions exp_recovers.

(* ====================================================================== *)
(* (2) probabilities sum to one                                            *)
(* ====================================================================== *)

Theorem probs_sum_one : forall (cs : list R), rsum cs <> 0 ->
  rsum (map (fun c => prob c (rsum cs)) cs) = 1.
Proof.
  intros cs H. unfold prob. rewrite rsum_map_div. field. exact H.
Qed.
Print Assumptions probs_sum_one.

(* ====================================================================== *)
(* (3) exp(-F/kT) over the voxels sums to one (unvisited voxels give 0)    *)
(* ====================================================================== *)

Theorem exp_sums_to_one : forall kT (cs : list R), 0 < kT ->
  (forall c, In c cs -> 0 <= c) -> rsum cs <> 0 ->
  rsum (map (fun c => if Req_EM_T c 0 then 0
                      else exp (- free_energy kT (prob c (rsum cs)) / kT)) cs) = 1.
Proof.
  intros kT cs HkT Hnn Hne.
  assert (Hpos : 0 < rsum cs).
  { pose proof (rsum_nonneg cs Hnn). lra. }
  rewrite <- (probs_sum_one cs Hne).
  apply rsum_map_ext_in. intros c Hc.
  destruct (Req_EM_T c 0) as [E | NE].
  - subst c. unfold prob, Rdiv. ring.
  - apply exp_recovers; [exact HkT|].
    unfold prob. apply Rdiv_lt_0_compat; [|exact Hpos].
    pose proof (Hnn c Hc). lra.
Qed.
Print Assumptions exp_sums_to_one.

(* ====================================================================== *)
(* (4) monotonicity: a denser voxel never has a higher free energy         *)
(* ====================================================================== *)

Theorem monotone : forall kT p q, 0 < kT -> 0 < p -> p <= q ->
  free_energy kT q <= free_energy kT p.
Proof.
  intros kT p q HkT Hp Hpq.
  rewrite (free_energy_pos kT p Hp), (free_energy_pos kT q) by lra.
  pose proof (ln_le_compat p q Hp Hpq) as Hln.
  assert (0 <= kT * (ln q - ln p)) by (apply Rmult_le_pos; lra).
  lra.
Qed.
Print Assumptions monotone.

(* strict version *)
Theorem monotone_strict : forall kT p q, 0 < kT -> 0 < p -> p < q ->
  free_energy kT q < free_energy kT p.
Proof.
  intros kT p q HkT Hp Hpq.
  rewrite (free_energy_pos kT p Hp), (free_energy_pos kT q) by lra.
  pose proof (ln_increasing p q Hp Hpq) as Hln.
  assert (0 < kT * (ln q - ln p)) by (apply Rmult_lt_0_compat; lra).
  lra.
Qed.
Print Assumptions monotone_strict.

(* ====================================================================== *)
(* (5) non-negativity on probabilities                                     *)
(* ====================================================================== *)

Theorem nonneg : forall kT p, 0 < kT -> 0 < p -> p <= 1 -> 0 <= free_energy kT p.
Proof.
  intros kT p HkT Hp Hp1. rewrite (free_energy_pos kT p Hp).
  pose proof (ln_le_compat p 1 Hp Hp1) as Hln. rewrite ln_1 in Hln.
  assert (0 <= kT * (- ln p)) by (apply Rmult_le_pos; lra).
  lra.
Qed.
Print Assumptions nonneg.

(* ====================================================================== *)
(* (6) unvisited voxels                                                    *)
(* ====================================================================== *)

Theorem unvisited_big : forall kT, free_energy kT 0 = BIG.
Proof.
  intro kT. unfold free_energy. destruct (Req_EM_T 0 0) as [_ | NE]; [reflexivity|].
  exfalso. apply NE. reflexivity.
Qed.
Print Assumptions unvisited_big.

Lemma BIG_gt_1e20 : 100000000000000000000 < BIG.
Proof. unfold BIG. lra. Qed.

Theorem big_excluded : forall thr, thr <= 100000000000000000000 -> ~ admitted thr BIG.
Proof.
  intros thr Hthr [_ Hlt]. pose proof BIG_gt_1e20. lra.
Qed.
Print Assumptions big_excluded.

(* hand-made bound (no interval arithmetic, hence no primitive-integer/float axioms):
   exp 100 >= 2^100 > 1e30, so ln 1e-30 > -100 (the true value is -69.08) *)
Lemma pow2_le_exp : forall n : nat, 2 ^ n <= exp (INR n).
Proof.
  induction n as [|n IH].
  - simpl. rewrite exp_0. lra.
  - rewrite S_INR, exp_plus. cbn [pow].
    pose proof (exp_ineq1 1 ltac:(lra)) as H1.
    pose proof (pow_lt 2 n ltac:(lra)) as H2.
    rewrite (Rmult_comm 2).
    apply Rmult_le_compat; lra.
Qed.

Lemma exp_100_gt : 1000000000000000000000000000000 < exp 100.
Proof.
  pose proof (pow2_le_exp 100) as H.
  replace (INR 100) with 100 in H by (rewrite INR_IZR_INZ; reflexivity).
  assert (1000000000000000000000000000000 < 2 ^ 100) by lra.
  lra.
Qed.

Lemma ln_1e30_gt : -100 < ln (1 / 1000000000000000000000000000000).
Proof.
  replace (-100) with (Ropp 100) by lra. rewrite <- (ln_exp (Ropp 100)).
  apply ln_increasing; [apply exp_pos|].
  rewrite exp_Ropp. pose proof exp_100_gt as H.
  unfold Rdiv. rewrite Rmult_1_l.
  apply Rinv_lt_contravar; [|exact H].
  apply Rmult_lt_0_compat; lra.
Qed.

Theorem visited_below_big : forall kT p, 0 < kT -> kT <= 1 ->
  1 / 1000000000000000000000000000000 <= p -> p <= 1 ->
  free_energy kT p < 100000000000000000000.
Proof.
  intros kT p HkT HkT1 Hlo Hhi.
  assert (Hp : 0 < p) by lra.
  rewrite (free_energy_pos kT p Hp).
  assert (Hl : ln (1 / 1000000000000000000000000000000) <= ln p) by (apply ln_le_compat; lra).
  pose proof ln_1e30_gt as Hc.
  pose proof (ln_le_compat p 1 Hp Hhi) as Hu. rewrite ln_1 in Hu.
  assert (kT * (- ln p) <= 1 * 100).
  { apply Rmult_le_compat; lra. }
  lra.
Qed.
Print Assumptions visited_below_big.

(* sharper: under the same hypotheses the free energy is below 100 (kT <= 1), so a visited
   voxel is admitted under every threshold thr >= 100, in particular the default 1e20
   (with interval arithmetic the constant could be lowered to 70 = ceil (30 ln 10)) *)
Theorem visited_admitted : forall kT p thr, 0 < kT -> kT <= 1 ->
  1 / 1000000000000000000000000000000 <= p -> p <= 1 -> 100 <= thr ->
  admitted thr (free_energy kT p).
Proof.
  intros kT p thr HkT HkT1 Hlo Hhi Hthr.
  assert (Hp : 0 < p) by lra.
  split; [apply nonneg; assumption|].
  rewrite (free_energy_pos kT p Hp).
  assert (Hl : ln (1 / 1000000000000000000000000000000) <= ln p) by (apply ln_le_compat; lra).
  pose proof ln_1e30_gt as Hc.
  pose proof (ln_le_compat p 1 Hp Hhi) as Hu. rewrite ln_1 in Hu.
  assert (kT * (- ln p) <= 1 * (- ln (1 / 1000000000000000000000000000000))).
  { apply Rmult_le_compat; lra. }
  lra.
Qed.
Print Assumptions visited_admitted.

(* ====================================================================== *)
(* (7) range of the probability                                            *)
(* ====================================================================== *)

Theorem prob_range : forall c total, 0 <= c -> c <= total -> 0 < total ->
  0 <= prob c total <= 1.
Proof.
  intros c total Hc Hct Ht. unfold prob. split.
  - apply Rmult_le_pos; [exact Hc|]. left. apply Rinv_0_lt_compat. exact Ht.
  - apply (Rmult_le_reg_r total); [exact Ht|].
    replace (c / total * total) with c by (field; lra). lra.
Qed.
Print Assumptions prob_range.

(* prob c total = 0 iff c = 0: an unvisited voxel is exactly one with zero density *)
Theorem prob_zero : forall c total, total <> 0 -> (prob c total = 0 <-> c = 0).
Proof. intros c total. apply prob_zero_iff. Qed.
Print Assumptions prob_zero.

(* (8) "finite": every real number is finite, so there is nothing to state in R; the
   finiteness of the implementation's output is a property of the binary64 values and is
   checked by Tie/C09.v (fe entries are exact dyadics, unvisited = BIGZ exactly). *)
