(* C15 -- theorems about the trajectory store model (Model/C15.v). *)
From GV Require Import Base.Prelude Model.C01 Model.C15.

(* ====================================================================== *)
(* generic list facts                                                      *)
(* ====================================================================== *)

Lemma zip_with_length {A B C} (f : A -> B -> C) : forall a b,
  length (zip_with f a b) = Nat.min (length a) (length b).
Proof.
  induction a as [|x a IH]; intros [|y b]; cbn [zip_with length Nat.min]; try reflexivity.
  f_equal. apply IH.
Qed.

Lemma vadd_length u v : length (vadd u v) = Nat.min (length u) (length v).
Proof. apply zip_with_length. Qed.
Lemma vsub_length u v : length (vsub u v) = Nat.min (length u) (length v).
Proof. apply zip_with_length. Qed.
Lemma vzero_length u : length (vzero u) = length u.
Proof. apply map_length. Qed.
Lemma vzero_vzero u : vzero (vzero u) = vzero u.
Proof. unfold vzero. rewrite map_map. reflexivity. Qed.

Lemma vadd_vzero_r : forall b z, length z = length b -> vadd b (vzero z) = b.
Proof.
  induction b as [|x b IH]; intros [|y z] H; cbn in H; try discriminate; [reflexivity|].
  cbn [vzero map vadd zip_with]. f_equal; [lia|]. apply IH. lia.
Qed.
Lemma vadd_vzero_l : forall z b, length z = length b -> vadd (vzero z) b = b.
Proof.
  induction z as [|y z IH]; intros [|x b] H; cbn in H; try discriminate; [reflexivity|].
  cbn [vzero map vadd zip_with]. f_equal; try lia. apply IH. lia.
Qed.

Lemma set_nth_length {A} : forall (l : list A) k x, length (set_nth l k x) = length l.
Proof.
  induction l as [|y l IH]; intros [|k] x; cbn [set_nth length]; try reflexivity.
  f_equal. apply IH.
Qed.

Lemma nth_set_nth {A} (d : A) : forall (l : list A) i k x,
  nth k (set_nth l i x) d = if (Nat.eqb k i && Nat.ltb i (length l))%bool then x else nth k l d.
Proof.
  induction l as [|y l IH]; intros [|i] [|k] x; cbn [set_nth nth length]; try reflexivity.
  - rewrite andb_false_r. reflexivity.
  - rewrite IH. cbn [Nat.eqb].
    replace (Nat.ltb (S i) (S (length l))) with (Nat.ltb i (length l)); [reflexivity|].
    destruct (Nat.ltb_spec i (length l)), (Nat.ltb_spec (S i) (S (length l))); try reflexivity; lia.
Qed.

Lemma Forall_set_nth {A} (P : A -> Prop) : forall (l : list A) i x,
  Forall P l -> P x -> Forall P (set_nth l i x).
Proof.
  induction l as [|y l IH]; intros [|i] x Hl Hx; cbn [set_nth]; try constructor;
    inversion Hl; subst; auto.
Qed.

Lemma Forall_nth_d {A} (P : A -> Prop) (d : A) : forall (l : list A) i,
  Forall P l -> P d -> P (nth i l d).
Proof.
  induction l as [|y l IH]; intros [|i] Hl Hd; cbn [nth]; auto; inversion Hl; subst; auto.
Qed.

Lemma mask_sel_map {A B} (g : A -> B) : forall m (l : list A),
  mask_sel m (map g l) = map g (mask_sel m l).
Proof.
  induction m as [|b m IH]; intros [|x l]; cbn [mask_sel map]; try reflexivity.
  destruct b; cbn [map]; rewrite IH; reflexivity.
Qed.

Lemma mask_sel_length {A B} : forall m (l1 : list A) (l2 : list B),
  length l1 = length l2 -> length (mask_sel m l1) = length (mask_sel m l2).
Proof.
  induction m as [|b m IH]; intros [|x l1] [|y l2] H; cbn in H; try discriminate;
    cbn [mask_sel]; try reflexivity.
  destruct b; cbn [length]; rewrite (IH l1 l2) by lia; reflexivity.
Qed.

(* ====================================================================== *)
(* (7) Python slice indices                                                *)
(* ====================================================================== *)

Lemma zrange_step_in : forall fuel a b st x, st <> 0 ->
  In x (zrange_step fuel a b st) ->
  if 0 <? st then a <= x < b else b < x <= a.
Proof.
  induction fuel as [|f IH]; intros a b st x Hst H; cbn [zrange_step] in H; [contradiction|].
  destruct (0 <? st) eqn:Es.
  - destruct (a <? b) eqn:E; [|contradiction]. destruct H as [<-|H]; [lia|].
    apply IH in H; [|exact Hst]. rewrite Es in H. lia.
  - destruct (b <? a) eqn:E; [|contradiction]. destruct H as [<-|H]; [lia|].
    apply IH in H; [|exact Hst]. rewrite Es in H. lia.
Qed.

Lemma slice_indices_bounds start stop step len a b st :
  0 <= len -> slice_indices start stop step len = Some (a, b, st) ->
  st <> 0 /\ (if 0 <? st then 0 <= a /\ b <= len else a <= len - 1 /\ -1 <= b).
Proof.
  intros Hlen H. unfold slice_indices in H.
  set (st0 := match step with None => 1 | Some s => s end) in *.
  destruct (st0 =? 0) eqn:E0; [discriminate|].
  injection H as <- <- <-. split; [lia|].
  destruct (0 <? st0) eqn:Es.
  - assert (st0 <? 0 = false) as -> by lia.
    destruct start as [v|], stop as [w|];
      repeat match goal with |- context [if ?c then _ else _] => destruct c eqn:? end; lia.
  - assert (st0 <? 0 = true) as -> by lia.
    destruct start as [v|], stop as [w|];
      repeat match goal with |- context [if ?c then _ else _] => destruct c eqn:? end; lia.
Qed.

Theorem py_slice_valid : forall start stop step len idx,
  py_slice start stop step len = Some idx ->
  forall i, In i idx -> 0 <= i < Z.of_nat len.
Proof.
  intros start stop step len idx H i Hi. unfold py_slice in H.
  destruct (slice_indices start stop step (Z.of_nat len)) as [[[a b] st]|] eqn:E; [|discriminate].
  injection H as <-. apply slice_indices_bounds in E; [|lia]. destruct E as [Hst Hb].
  apply (zrange_step_in (S len) a b st i Hst) in Hi.
  destruct (0 <? st); lia.
Qed.

Lemma zrange_step_unit : forall fuel a b, a <= b -> b - a <= Z.of_nat fuel ->
  zrange_step fuel a b 1 = zrange a (Z.to_nat (b - a)).
Proof.
  induction fuel as [|f IH]; intros a b Hab Hf.
  - replace (b - a) with 0 by lia. reflexivity.
  - cbn [zrange_step]. change (0 <? 1) with true. cbv iota.
    destruct (a <? b) eqn:E.
    + replace (Z.to_nat (b - a)) with (S (Z.to_nat (b - (a + 1)))) by lia.
      cbn [zrange]. f_equal. apply IH; lia.
    + replace (b - a) with 0 by lia. reflexivity.
Qed.

Theorem py_slice_plain : forall a b len, 0 <= a <= b -> b <= Z.of_nat len ->
  py_slice (Some a) (Some b) None len = Some (zrange a (Z.to_nat (b - a))).
Proof.
  intros a b len Hab Hb. unfold py_slice, slice_indices.
  change (1 =? 0) with false. change (0 <? 1) with true. cbv iota.
  assert (a <? 0 = false) as -> by lia. assert (b <? 0 = false) as -> by lia.
  rewrite !Z.min_l by lia. f_equal. apply zrange_step_unit; lia.
Qed.

(* the fuel S len used by py_slice is enough: more fuel yields the same list *)
Lemma zrange_step_fuel : forall fuel m a b st, st <> 0 ->
  (if 0 <? st then b - a else a - b) <= Z.of_nat fuel ->
  zrange_step (fuel + m) a b st = zrange_step fuel a b st.
Proof.
  induction fuel as [|f IH]; intros m a b st Hst Hf.
  - cbn [Nat.add zrange_step]. destruct m as [|m]; [reflexivity|]. cbn [zrange_step].
    destruct (0 <? st) eqn:Es.
    + assert (a <? b = false) as -> by lia. reflexivity.
    + assert (b <? a = false) as -> by lia. reflexivity.
  - cbn [Nat.add zrange_step].
    destruct (0 <? st) eqn:Es.
    + destruct (a <? b) eqn:E; [|reflexivity]. f_equal. apply IH; [exact Hst|]. rewrite Es. lia.
    + destruct (b <? a) eqn:E; [|reflexivity]. f_equal. apply IH; [exact Hst|]. rewrite Es. lia.
Qed.

Theorem py_slice_fuel_enough : forall start stop step len a b st m,
  slice_indices start stop step (Z.of_nat len) = Some (a, b, st) ->
  py_slice start stop step len = Some (zrange_step (S len + m) a b st).
Proof.
  intros start stop step len a b st m E. unfold py_slice. rewrite E. f_equal. symmetry.
  apply slice_indices_bounds in E; [|lia]. destruct E as [Hst Hb].
  apply zrange_step_fuel; [exact Hst|]. destruct (0 <? st); lia.
Qed.

(* every frame picked by valid indices is a frame of the source *)
Lemma select_in {A} (d : A) (l : list A) : forall idx,
  (forall i, In i idx -> 0 <= i < Z.of_nat (length l)) ->
  forall x, In x (select d l idx) -> In x l.
Proof.
  intros idx H x Hx. unfold select in Hx. apply in_map_iff in Hx. destruct Hx as [i [<- Hi]].
  specialize (H i Hi). unfold znth. assert (i <? 0 = false) as -> by lia.
  apply nth_In. lia.
Qed.

(* ====================================================================== *)
(* wrapping, telescoping                                                   *)
(* ====================================================================== *)

Section C15.
  Variable D : Z.

  Lemma vwrap_length u : length (vwrap D u) = length u.
  Proof. apply map_length. Qed.
  Lemma vmi_length u : length (vmi D u) = length u.
  Proof. apply map_length. Qed.

  Lemma vwrap_idem u : vwrap D (vwrap D u) = vwrap D u.
  Proof. unfold vwrap. rewrite map_map. apply map_ext. intro x. unfold wrapD. apply Zmod_mod. Qed.

  Lemma map_vwrap_idem l : map (vwrap D) (map (vwrap D) l) = map (vwrap D) l.
  Proof. rewrite map_map. apply map_ext. intro u. apply vwrap_idem. Qed.

  Lemma vzero_vwrap u : vzero (vwrap D u) = vzero u.
  Proof. unfold vzero, vwrap. rewrite map_map. reflexivity. Qed.

  (* (1) *)
  Theorem abs_to_positions t : abs D (to_positions D t) = abs D t.
  Proof.
    unfold abs. unfold to_positions at 1. destruct (t_mode t) eqn:E; cbn [t_mode t_coords].
    - unfold to_positions. rewrite E. cbn [t_coords]. apply map_vwrap_idem.
    - unfold to_positions. rewrite E. cbn [t_coords]. apply map_vwrap_idem.
  Qed.

  Lemma abs_wrapped t : map (vwrap D) (abs D t) = abs D t.
  Proof.
    unfold abs, to_positions. destruct (t_mode t); cbn [t_coords]; apply map_vwrap_idem.
  Qed.

  Lemma abs_MPos t : t_mode t = MPos -> abs D t = map (vwrap D) (t_coords t).
  Proof. intro E. unfold abs, to_positions. rewrite E. reflexivity. Qed.

  Hypothesis HD : 0 < D.

  Lemma vwrap_vzero u : vwrap D (vzero u) = vzero u.
  Proof.
    unfold vwrap, vzero. rewrite map_map. apply map_ext. intros _. unfold wrapD. apply Z.mod_0_l. lia.
  Qed.

  Lemma tel_scalar b a x p :
    (b + a) mod D = p mod D -> (b + (a + mi D (x - p))) mod D = x mod D.
  Proof.
    intro H. unfold mi. generalize (nint D (x - p)). intro k.
    replace (b + (a + (x - p - D * k))) with (x + ((b + a) - p) + (- k) * D) by ring.
    rewrite Z.mod_add by lia. rewrite Zplus_mod. rewrite (Zminus_mod (b + a) p). rewrite H.
    rewrite Z.sub_diag. rewrite Z.mod_0_l by lia. rewrite Z.add_0_r. apply Zmod_mod.
  Qed.

  Lemma tel_vec : forall b a x p,
    length a = length b -> length x = length b -> length p = length b ->
    vwrap D (vadd b a) = vwrap D p ->
    vwrap D (vadd b (vadd a (vmi D (vsub x p)))) = vwrap D x.
  Proof.
    induction b as [|b0 b IH]; intros [|a0 a] [|x0 x] [|p0 p] Ha Hx Hp H;
      cbn [length] in Ha, Hx, Hp; try discriminate; [reflexivity|].
    cbn [vadd vsub vmi vwrap zip_with map] in *. injection H as H0 H.
    f_equal.
    - unfold wrapD in *. apply tel_scalar. exact H0.
    - apply IH; try lia. exact H.
  Qed.

  Lemma tel_frames : forall r b acc prev,
    length acc = length b -> length prev = length b ->
    (forall f, In f r -> length f = length b) ->
    vwrap D (vadd b acc) = vwrap D prev ->
    map (vwrap D) (map (vadd b) (fcumsum acc (fdiffs D prev r))) = map (vwrap D) r.
  Proof.
    induction r as [|x r IH]; intros b acc prev Ha Hp Hr H; [reflexivity|].
    cbn [fdiffs fcumsum map].
    assert (Hx : length x = length b) by (apply Hr; left; reflexivity).
    f_equal.
    - apply tel_vec; assumption.
    - apply IH.
      + rewrite vadd_length, vmi_length, vsub_length. lia.
      + exact Hx.
      + intros f Hf. apply Hr. right. exact Hf.
      + apply tel_vec; assumption.
  Qed.

  (* the core lemma as stated in the task *)
  Lemma tel_core b f0 r :
    length b = length f0 -> (forall f, In f r -> length f = length f0) ->
    vwrap D b = vwrap D f0 ->
    map (vwrap D) (map (vadd b) (fcumsum (vzero b) (vzero f0 :: fdiffs D f0 r)))
    = map (vwrap D) (f0 :: r).
  Proof.
    intros Hl Hr Hw. cbn [fcumsum map].
    assert (E : vadd (vzero b) (vzero f0) = vzero b).
    { apply vadd_vzero_r. rewrite vzero_length. symmetry. exact Hl. }
    rewrite E. rewrite (vadd_vzero_r b b) by reflexivity. f_equal; [exact Hw|].
    apply tel_frames.
    - apply vzero_length.
    - symmetry. exact Hl.
    - intros f Hf. rewrite (Hr f Hf). symmetry. exact Hl.
    - rewrite (vadd_vzero_r b b) by reflexivity. exact Hw.
  Qed.

  (* ====================================================================== *)
  (* well-formedness                                                         *)
  (* ====================================================================== *)

  (* wf0: all frames have as many components as the base; in position mode the first frame
     is congruent to the base (the constructor sets base := coords[0]); in displacement mode
     the first stored displacement is congruent to zero (to_displacements stores zeros). *)
  Definition wf0 (t : traj) : Prop :=
    (forall f, In f (t_coords t) -> length f = length (t_base t)) /\
    match t_coords t with
    | [] => True
    | f0 :: _ => match t_mode t with
                 | MPos => vwrap D f0 = vwrap D (t_base t)
                 | MDisp => vwrap D f0 = vzero f0
                 end
    end.

  (* wf: in addition, in displacement mode, if the positions have no half-cell step then the
     stored displacements are the specified ones.  Holds for every object built in position
     mode and is preserved by every operation (wf_step below). *)
  Definition wf (t : traj) : Prop :=
    wf0 t /\
    (t_mode t = MDisp -> frames_no_tie D (abs D t) = true -> t_coords t = spec_disp D (abs D t)).

  Lemma wf_dummy : wf dummy.
  Proof. split; [split|]; cbn; try tauto; try discriminate. Qed.

  (* (2) *)
  Theorem abs_to_displacements0 t : wf0 t -> abs D (to_displacements D t) = abs D t.
  Proof.
    intros [Hl Hf]. unfold to_displacements. destruct (t_mode t) eqn:E; [|reflexivity].
    unfold abs at 1. unfold to_positions. cbn [t_mode t_coords t_base].
    rewrite (abs_MPos t E).
    destruct (t_coords t) as [|f0 r]; [reflexivity|].
    apply tel_core.
    - symmetry. apply Hl. left. reflexivity.
    - intros f H. rewrite (Hl f0 (or_introl eq_refl)). apply Hl. right. exact H.
    - symmetry. exact Hf.
  Qed.

  Theorem abs_to_displacements t : wf t -> abs D (to_displacements D t) = abs D t.
  Proof. intros [H _]. apply abs_to_displacements0. exact H. Qed.

  (* ---------- (3) preservation of well-formedness ---------- *)

  Lemma mode_to_positions t : t_mode (to_positions D t) = MPos.
  Proof. unfold to_positions. destruct (t_mode t); reflexivity. Qed.
  Lemma base_to_positions t : t_base (to_positions D t) = t_base t.
  Proof. unfold to_positions. destruct (t_mode t); reflexivity. Qed.
  Lemma mode_to_displacements t : t_mode (to_displacements D t) = MDisp.
  Proof. unfold to_displacements. destruct (t_mode t) eqn:E; [reflexivity|exact E]. Qed.
  Lemma base_to_displacements t : t_base (to_displacements D t) = t_base t.
  Proof. unfold to_displacements. destruct (t_mode t); reflexivity. Qed.

  Lemma fcumsum_len : forall fr acc n, length acc = n -> (forall f, In f fr -> length f = n) ->
    forall g, In g (fcumsum acc fr) -> length g = n.
  Proof.
    induction fr as [|x fr IH]; intros acc n Ha Hf g Hg; cbn [fcumsum] in Hg; [contradiction|].
    assert (Hx : length (vadd acc x) = n).
    { rewrite vadd_length, Ha, (Hf x (or_introl eq_refl)). apply Nat.min_id. }
    destruct Hg as [<-|Hg]; [exact Hx|].
    apply (IH (vadd acc x) n Hx); [|exact Hg]. intros f H. apply Hf. right. exact H.
  Qed.

  Lemma fdiffs_len : forall r prev n, length prev = n -> (forall f, In f r -> length f = n) ->
    forall g, In g (fdiffs D prev r) -> length g = n.
  Proof.
    induction r as [|x r IH]; intros prev n Hp Hf g Hg; cbn [fdiffs] in Hg; [contradiction|].
    assert (Hx : length x = n) by (apply Hf; left; reflexivity).
    destruct Hg as [<-|Hg].
    - rewrite vmi_length, vsub_length, Hx, Hp. apply Nat.min_id.
    - apply (IH x n Hx); [|exact Hg]. intros f H. apply Hf. right. exact H.
  Qed.

  Lemma vwrap_vadd_zero : forall b d, length d = length b -> vwrap D d = vzero d ->
    vwrap D (vadd b d) = vwrap D b.
  Proof.
    induction b as [|b0 b IH]; intros [|d0 d] Hl H; cbn [length] in Hl; try discriminate; [reflexivity|].
    cbn [vadd vwrap vzero zip_with map] in *. injection H as H0 H. f_equal.
    - unfold wrapD in *. rewrite Zplus_mod, H0, Z.add_0_r. apply Zmod_mod.
    - apply IH; [lia|exact H].
  Qed.

  Theorem wf0_to_positions t : wf0 t -> wf0 (to_positions D t).
  Proof.
    intros [Hl Hf]. unfold wf0. rewrite base_to_positions, mode_to_positions.
    unfold to_positions. destruct (t_mode t) eqn:E; cbn [t_coords].
    - split.
      + intros f H. apply in_map_iff in H. destruct H as [g [<- Hg]]. rewrite vwrap_length. apply Hl, Hg.
      + destruct (t_coords t) as [|f0 r]; [exact I|]. cbn [map]. rewrite vwrap_idem. exact Hf.
    - split.
      + intros f H. apply in_map_iff in H. destruct H as [g [<- Hg]]. rewrite vwrap_length.
        apply in_map_iff in Hg. destruct Hg as [h [<- Hh]].
        assert (length h = length (t_base t)) as Hlen.
        { apply (fcumsum_len (t_coords t) (vzero (t_base t)) _ (vzero_length _) Hl h Hh). }
        rewrite vadd_length, Hlen. apply Nat.min_id.
      + destruct (t_coords t) as [|d0 r]; [exact I|]. cbn [fcumsum map]. rewrite vwrap_idem.
        assert (Hd : length d0 = length (t_base t)) by (apply Hl; left; reflexivity).
        rewrite vadd_vzero_l by (symmetry; exact Hd).
        apply vwrap_vadd_zero; assumption.
  Qed.

  Theorem wf_to_positions t : wf t -> wf (to_positions D t).
  Proof.
    intros [H _]. split; [apply wf0_to_positions; exact H|].
    rewrite mode_to_positions. discriminate.
  Qed.

  Theorem wf0_to_displacements t : wf0 t -> wf0 (to_displacements D t).
  Proof.
    intros Hw. pose proof Hw as [Hl Hf]. unfold wf0.
    rewrite base_to_displacements, mode_to_displacements.
    unfold to_displacements. destruct (t_mode t) eqn:E; [|split; assumption].
    cbn [t_coords]. destruct (t_coords t) as [|f0 r]; [split; [intros f []|exact I]|].
    assert (H0 : length f0 = length (t_base t)) by (apply Hl; left; reflexivity).
    split.
    - intros f [<-|H]; [rewrite vzero_length; exact H0|].
      apply (fdiffs_len r f0 _ H0); [|exact H]. intros g Hg. apply Hl. right. exact Hg.
    - rewrite vwrap_vzero, vzero_vzero. reflexivity.
  Qed.

  (* ---------- minimum image of unwrapped vs wrapped coordinates ---------- *)

  Lemma mi_shift d k : tie D d = false -> mi D (d + k * D) = mi D d.
  Proof.
    unfold tie, mi, nint. intro Ht. rewrite Z.div_add, Z.mod_add by lia.
    remember (d / D) as q. remember (d mod D) as r.
    destruct (2 * r <? D) eqn:E1; [ring|].
    destruct (D <? 2 * r) eqn:E2; [ring|]. lia.
  Qed.

  Lemma mi_wrap_sub a b : tie D (a mod D - b mod D) = false ->
    mi D (a - b) = mi D (a mod D - b mod D).
  Proof.
    intro Ht. rewrite <- (mi_shift _ (a / D - b / D) Ht). f_equal.
    rewrite (Z.div_mod a D) at 1 by lia. rewrite (Z.div_mod b D) at 1 by lia. ring.
  Qed.

  Fixpoint nt_go (prev : list Z) (fr : list (list Z)) : bool :=
    match fr with
    | [] => true
    | x :: r' => forallb (fun d => negb (tie D d)) (vsub x prev) && nt_go x r'
    end.

  Lemma frames_no_tie_eq p :
    frames_no_tie D p = match p with [] => true | f0 :: r => nt_go f0 r end.
  Proof. destruct p; reflexivity. Qed.

  Lemma vmi_vsub_wrap : forall x p,
    forallb (fun d => negb (tie D d)) (vsub (vwrap D x) (vwrap D p)) = true ->
    vmi D (vsub x p) = vmi D (vsub (vwrap D x) (vwrap D p)).
  Proof.
    induction x as [|x0 x IH]; intros [|p0 p] H; try reflexivity.
    cbn [vwrap vsub vmi zip_with map forallb] in *. apply andb_true_iff in H. destruct H as [H0 H].
    f_equal.
    - unfold wrapD in *. apply mi_wrap_sub. destruct (tie D (x0 mod D - p0 mod D)); [discriminate|reflexivity].
    - apply IH. exact H.
  Qed.

  Lemma fdiffs_wrap : forall r prev, nt_go (vwrap D prev) (map (vwrap D) r) = true ->
    fdiffs D prev r = fdiffs D (vwrap D prev) (map (vwrap D) r).
  Proof.
    induction r as [|x r IH]; intros prev H; [reflexivity|].
    cbn [map nt_go fdiffs] in *. apply andb_true_iff in H. destruct H as [H0 H].
    f_equal; [apply vmi_vsub_wrap; exact H0|apply IH; exact H].
  Qed.

  Lemma spec_disp_wrap c : frames_no_tie D (map (vwrap D) c) = true ->
    spec_disp D c = spec_disp D (map (vwrap D) c).
  Proof.
    rewrite frames_no_tie_eq. destruct c as [|f0 r]; [reflexivity|]. cbn [map spec_disp]. intro H.
    rewrite vzero_vwrap. f_equal. apply fdiffs_wrap. exact H.
  Qed.

  Theorem wf_to_displacements t : wf t -> wf (to_displacements D t).
  Proof.
    intros [H0 H3]. split; [apply wf0_to_displacements; exact H0|].
    intros _. rewrite (abs_to_displacements0 t H0). intro Hnt.
    unfold to_displacements. destruct (t_mode t) eqn:E; [|apply H3; [reflexivity|exact Hnt]].
    cbn [t_coords]. rewrite (abs_MPos t E) in *.
    rewrite <- (spec_disp_wrap _ Hnt). reflexivity.
  Qed.

  (* ---------- (4) queries return the specification evaluated on the abstraction ---------- *)

  Theorem query_pos s i :
    step D s (QPos i) = (set_nth s i (to_positions D (nth i s dummy)), RVal (abs D (nth i s dummy))).
  Proof. reflexivity. Qed.

  Lemma to_displacements_coords t : wf t -> frames_no_tie D (abs D t) = true ->
    t_coords (to_displacements D t) = spec_disp D (abs D t).
  Proof.
    intros Hw Hnt. destruct (wf_to_displacements t Hw) as [_ H3].
    rewrite (abs_to_displacements t Hw) in H3. apply H3; [apply mode_to_displacements|exact Hnt].
  Qed.

  Theorem query_disp s i : let t := nth i s dummy in
    wf t -> frames_no_tie D (abs D t) = true ->
    step D s (QDisp i) = (set_nth s i (to_displacements D t), RVal (spec_disp D (abs D t))).
  Proof.
    intros t Hw Hnt. cbn [step]. fold t. rewrite (to_displacements_coords t Hw Hnt). reflexivity.
  Qed.

  Theorem query_cum s i : let t := nth i s dummy in
    wf t -> frames_no_tie D (abs D t) = true ->
    step D s (QCum i) = (set_nth s i (to_displacements D t), RVal (spec_cum D (abs D t))).
  Proof.
    intros t Hw Hnt. cbn [step]. fold t. rewrite (to_displacements_coords t Hw Hnt).
    unfold spec_cum. destruct (abs D t) as [|p0 r]; [reflexivity|].
    cbn [spec_disp]. rewrite vzero_vzero. reflexivity.
  Qed.

  (* ---------- (5) read-only steps ---------- *)

  Lemma upd_ok s i x : Forall wf s -> wf x -> abs D x = abs D (nth i s dummy) ->
    Forall wf (set_nth s i x) /\ forall k, abs D (nth k (set_nth s i x) dummy) = abs D (nth k s dummy).
  Proof.
    intros Hs Hx Ha. split; [apply Forall_set_nth; assumption|].
    intro k. rewrite nth_set_nth. destruct (Nat.eqb k i) eqn:E; [|reflexivity].
    destruct (Nat.ltb i (length s)); [|reflexivity]. cbn [andb].
    apply Nat.eqb_eq in E. subst k. exact Ha.
  Qed.

  Lemma abs_len t : wf0 t -> forall f, In f (abs D t) -> length f = length (t_base t).
  Proof.
    intros Hw f Hf. destruct (wf0_to_positions t Hw) as [Hl _].
    rewrite base_to_positions in Hl. apply Hl. exact Hf.
  Qed.

  Lemma wf_new f0 r : (forall f, In f r -> length f = length f0) ->
    wf {| t_mode := MPos; t_coords := f0 :: r; t_base := f0 |}.
  Proof.
    intro H. split; [split|]; cbn [t_mode t_coords t_base].
    - intros f [<-|Hf]; [reflexivity|apply H; exact Hf].
    - reflexivity.
    - discriminate.
  Qed.

  Lemma abs_new f0 r b : map (vwrap D) (f0 :: r) = f0 :: r ->
    abs D {| t_mode := MPos; t_coords := f0 :: r; t_base := b |} = f0 :: r.
  Proof. intro H. unfold abs, to_positions. cbn [t_mode t_coords]. exact H. Qed.

  Lemma same_len_cons {A} (f0 : list A) r n : (forall f, In f (f0 :: r) -> length f = n) ->
    forall f, In f r -> length f = length f0.
  Proof. intros H f Hf. rewrite (H f0 (or_introl eq_refl)). apply H. right. exact Hf. Qed.

  (* frames selected by a Python slice are frames of the source *)
  Lemma slice_frames (l : list (list Z)) a b c idx : py_slice a b c (length l) = Some idx ->
    forall f, In f (select [] l idx) -> In f l.
  Proof. intros H. apply select_in. apply (py_slice_valid _ _ _ _ _ H). Qed.

  Lemma wrapped_sub l l' : map (vwrap D) l = l -> (forall f, In f l' -> In f l) -> map (vwrap D) l' = l'.
  Proof.
    intros Hl Hsub. rewrite <- (map_id l') at 2. apply map_ext_in. intros f Hf.
    apply Hsub in Hf. rewrite <- Hl in Hf. apply in_map_iff in Hf. destruct Hf as [g [<- _]].
    apply vwrap_idem.
  Qed.

  Lemma filter_wrapped m l : map (vwrap D) l = l ->
    map (vwrap D) (map (mask_sel m) l) = map (mask_sel m) l.
  Proof.
    intro H. rewrite <- H at 2. rewrite !map_map. apply map_ext. intro f.
    symmetry. apply mask_sel_map.
  Qed.

  Lemma filter_len m (l : list (list Z)) n : (forall f, In f l -> length f = n) ->
    forall f0 r, map (mask_sel m) l = f0 :: r -> forall f, In f r -> length f = length f0.
  Proof.
    intros H f0 r E f Hf. destruct l as [|g0 l]; [discriminate|]. cbn [map] in E.
    injection E as <- <-. apply in_map_iff in Hf. destruct Hf as [g [<- Hg]].
    apply mask_sel_length. rewrite (H g0 (or_introl eq_refl)). apply H. right. exact Hg.
  Qed.

  Theorem step_read_only s o s' r :
    read_only o = true -> Forall wf s -> step D s o = (s', r) ->
    Forall wf s' /\ (length s <= length s')%nat /\
    forall k, (k < length s)%nat -> abs D (nth k s' dummy) = abs D (nth k s dummy).
  Proof.
    intros Hro Hs Hst.
    assert (Hq : forall i x, wf x -> abs D x = abs D (nth i s dummy) ->
       Forall wf (set_nth s i x) /\ (length s <= length (set_nth s i x))%nat /\
       forall k, (k < length s)%nat -> abs D (nth k (set_nth s i x) dummy) = abs D (nth k s dummy)).
    { intros i x Hx Ha. destruct (upd_ok s i x Hs Hx Ha) as [H1 H2].
      split; [exact H1|]. split; [rewrite set_nth_length; lia|]. intros k _. apply H2. }
    assert (Hn : forall i x y, wf x -> abs D x = abs D (nth i s dummy) -> wf y ->
       Forall wf (set_nth s i x ++ [y]) /\ (length s <= length (set_nth s i x ++ [y]))%nat /\
       forall k, (k < length s)%nat -> abs D (nth k (set_nth s i x ++ [y]) dummy) = abs D (nth k s dummy)).
    { intros i x y Hx Ha Hy. destruct (upd_ok s i x Hs Hx Ha) as [H1 H2].
      split; [apply Forall_app; split; [exact H1|constructor; [exact Hy|constructor]]|].
      split; [rewrite app_length, set_nth_length; lia|].
      intros k Hk. rewrite app_nth1 by (rewrite set_nth_length; exact Hk). apply H2. }
    assert (Hwf : forall i, wf (nth i s dummy)) by (intro i; apply Forall_nth_d; [exact Hs|exact wf_dummy]).
    destruct o as [i|i|i|i a b c|i mask|i j]; cbn [read_only] in Hro; try discriminate;
      cbn [step] in Hst; cbv zeta in Hst;
      change (t_coords (to_positions D (nth i s dummy))) with (abs D (nth i s dummy)) in Hst.
    - injection Hst as <- _. apply Hq; [apply wf_to_positions, Hwf|apply abs_to_positions].
    - injection Hst as <- _. apply Hq; [apply wf_to_displacements, Hwf|apply abs_to_displacements, Hwf].
    - injection Hst as <- _. apply Hq; [apply wf_to_displacements, Hwf|apply abs_to_displacements, Hwf].
    - destruct (py_slice a b c (length (abs D (nth i s dummy)))) as [idx|] eqn:Eps.
      + destruct (select [] (abs D (nth i s dummy)) idx) as [|f0 r0] eqn:Esel; injection Hst as <- _.
        * apply Hq; [apply wf_to_positions, Hwf|apply abs_to_positions].
        * apply Hn; [apply wf_to_positions, Hwf|apply abs_to_positions|].
          apply wf_new. apply (same_len_cons f0 r0 (length (t_base (nth i s dummy)))).
          intros f Hf. apply abs_len; [apply Hwf|]. rewrite <- Esel in Hf.
          apply (slice_frames _ _ _ _ _ Eps f Hf).
      + injection Hst as <- _. apply Hq; [apply wf_to_positions, Hwf|apply abs_to_positions].
    - destruct (map (mask_sel mask) (abs D (nth i s dummy))) as [|f0 r0] eqn:Em; injection Hst as <- _.
      + apply Hq; [apply wf_to_positions, Hwf|apply abs_to_positions].
      + apply Hn; [apply wf_to_positions, Hwf|apply abs_to_positions|].
        apply wf_new. apply (filter_len mask _ _ (abs_len _ (proj1 (Hwf i))) _ _ Em).
  Qed.

  Theorem run_read_only : forall ops s s' rs,
    forallb read_only ops = true -> Forall wf s -> run D s ops = (s', rs) ->
    Forall wf s' /\ (length s <= length s')%nat /\
    forall k, (k < length s)%nat -> abs D (nth k s' dummy) = abs D (nth k s dummy).
  Proof.
    induction ops as [|o ops IH]; intros s s' rs Hro Hs Hr; cbn [run forallb] in *.
    - injection Hr as <- _. split; [exact Hs|]. split; [lia|]. intros; reflexivity.
    - apply andb_true_iff in Hro. destruct Hro as [Ho Hro].
      destruct (step D s o) as [s1 x] eqn:E1. destruct (run D s1 ops) as [s2 xs] eqn:E2.
      injection Hr as <- _.
      destruct (step_read_only s o s1 x Ho Hs E1) as [H1 [L1 A1]].
      destruct (IH s1 s2 xs Hro H1 E2) as [H2 [L2 A2]].
      split; [exact H2|]. split; [lia|]. intros k Hk. rewrite A2 by lia. apply A1. exact Hk.
  Qed.

  (* consequence: after any sequence of read-only operations every query on an object that
     existed before returns what it returned before *)
  Theorem query_stable ops s s' rs i :
    forallb read_only ops = true -> Forall wf s -> run D s ops = (s', rs) -> (i < length s)%nat ->
    snd (step D s' (QPos i)) = snd (step D s (QPos i)) /\
    (frames_no_tie D (abs D (nth i s dummy)) = true ->
       snd (step D s' (QDisp i)) = snd (step D s (QDisp i)) /\
       snd (step D s' (QCum i)) = snd (step D s (QCum i))).
  Proof.
    intros Hro Hs Hr Hi. destruct (run_read_only ops s s' rs Hro Hs Hr) as [Hs' [_ Ha]].
    specialize (Ha i Hi).
    assert (W : wf (nth i s dummy)) by (apply Forall_nth_d; [exact Hs|exact wf_dummy]).
    assert (W' : wf (nth i s' dummy)) by (apply Forall_nth_d; [exact Hs'|exact wf_dummy]).
    split.
    - rewrite !query_pos. cbn [snd]. rewrite Ha. reflexivity.
    - intro Hnt. assert (Hnt' : frames_no_tie D (abs D (nth i s' dummy)) = true) by (rewrite Ha; exact Hnt).
      rewrite (query_disp s' i W' Hnt'), (query_disp s i W Hnt).
      rewrite (query_cum s' i W' Hnt'), (query_cum s i W Hnt). cbn [snd]. rewrite Ha. split; reflexivity.
  Qed.

  (* ---------- (6) derived objects ---------- *)

  Theorem slice_new s i a b c s' v : let t := nth i s dummy in
    Forall wf s -> step D s (OSlice i a b c) = (s', RVal v) ->
    exists idx new,
      py_slice a b c (length (abs D t)) = Some idx /\
      (forall k, In k idx -> 0 <= k < Z.of_nat (length (abs D t))) /\
      v = select [] (abs D t) idx /\
      s' = set_nth s i (to_positions D t) ++ [new] /\ last s' dummy = new /\
      abs D new = v /\ wf new.
  Proof.
    intros t Hs Hst. assert (Hw : wf t) by (apply Forall_nth_d; [exact Hs|exact wf_dummy]).
    cbn [step] in Hst. cbv zeta in Hst. fold t in Hst.
    change (t_coords (to_positions D t)) with (abs D t) in Hst.
    destruct (py_slice a b c (length (abs D t))) as [idx|] eqn:Eps; [|discriminate].
    destruct (select [] (abs D t) idx) as [|f0 r0] eqn:Esel; [discriminate|].
    injection Hst as <- <-. exists idx. eexists. split; [reflexivity|].
    split; [apply (py_slice_valid _ _ _ _ _ Eps)|].
    split; [symmetry; exact Esel|]. split; [reflexivity|]. split; [apply last_last|].
    assert (Hin : forall f, In f (f0 :: r0) -> In f (abs D t)).
    { intros f Hf. rewrite <- Esel in Hf. apply (slice_frames _ _ _ _ _ Eps f Hf). }
    split.
    - apply abs_new. apply (wrapped_sub (abs D t)); [apply abs_wrapped|exact Hin].
    - apply wf_new. apply (same_len_cons f0 r0 (length (t_base t))).
      intros f Hf. apply abs_len; [apply Hw|apply Hin, Hf].
  Qed.

  Theorem filter_new s i mask s' v : let t := nth i s dummy in
    Forall wf s -> step D s (OFilter i mask) = (s', RVal v) ->
    exists new,
      v = map (mask_sel mask) (abs D t) /\
      s' = set_nth s i (to_positions D t) ++ [new] /\ last s' dummy = new /\
      abs D new = v /\ wf new.
  Proof.
    intros t Hs Hst. assert (Hw : wf t) by (apply Forall_nth_d; [exact Hs|exact wf_dummy]).
    cbn [step] in Hst. cbv zeta in Hst. fold t in Hst.
    change (t_coords (to_positions D t)) with (abs D t) in Hst.
    destruct (map (mask_sel mask) (abs D t)) as [|f0 r0] eqn:Em; [discriminate|].
    injection Hst as <- <-. eexists. split; [reflexivity|]. split; [reflexivity|].
    split; [apply last_last|]. split.
    - apply abs_new. rewrite <- Em. apply filter_wrapped. apply abs_wrapped.
    - apply wf_new. apply (filter_len mask _ _ (abs_len _ (proj1 Hw)) _ _ Em).
  Qed.

  Theorem extend_abs s i j s' r : (i < length s)%nat ->
    step D s (OExtend i j) = (s', r) ->
    length s' = length s /\ r = RNone /\
    abs D (nth i s' dummy) = abs D (nth i s dummy) ++ abs D (nth j s dummy) /\
    forall k, k <> i -> abs D (nth k s' dummy) = abs D (nth k s dummy).
  Proof.
    intros Hi Hst. cbn [step] in Hst. cbv zeta in Hst. injection Hst as <- <-.
    split; [rewrite !set_nth_length; reflexivity|]. split; [reflexivity|]. split.
    - rewrite nth_set_nth. rewrite Nat.eqb_refl, set_nth_length.
      destruct (Nat.ltb_spec i (length s)) as [_|]; [|lia]. cbn [andb].
      unfold abs at 1. unfold to_positions at 1. cbn [t_mode t_coords].
      change (t_coords (to_positions D (nth i s dummy))) with (abs D (nth i s dummy)).
      change (t_coords (to_positions D (nth j s dummy))) with (abs D (nth j s dummy)).
      rewrite map_app, !abs_wrapped. reflexivity.
    - intros k Hk. rewrite nth_set_nth. destruct (Nat.eqb_spec k i) as [|_]; [contradiction|].
      cbn [andb]. rewrite nth_set_nth. destruct (Nat.eqb k j) eqn:E; [|reflexivity].
      destruct (Nat.ltb j (length s)); [|reflexivity]. cbn [andb].
      apply Nat.eqb_eq in E. subst k. apply abs_to_positions.
  Qed.

  (* the extended object is well formed when both have the same number of components and the
     extended one is not empty (the model does not reject mismatched shapes) *)
  Theorem extend_wf s i j s' r :
    Forall wf s -> step D s (OExtend i j) = (s', r) ->
    abs D (nth i s dummy) <> [] ->
    length (t_base (nth i s dummy)) = length (t_base (nth j s dummy)) ->
    Forall wf s'.
  Proof.
    intros Hs Hst Hne Hlen. cbn [step] in Hst. cbv zeta in Hst. injection Hst as <- _.
    assert (Hwf : forall k, wf (nth k s dummy)) by (intro k; apply Forall_nth_d; [exact Hs|exact wf_dummy]).
    apply Forall_set_nth; [apply Forall_set_nth; [exact Hs|apply wf_to_positions, Hwf]|].
    change (t_coords (to_positions D (nth i s dummy))) with (abs D (nth i s dummy)).
    change (t_coords (to_positions D (nth j s dummy))) with (abs D (nth j s dummy)).
    rewrite base_to_positions.
    split; [split|]; cbn [t_mode t_coords t_base]; [| |discriminate].
    - intros f Hf. apply in_app_or in Hf. destruct Hf as [Hf|Hf].
      + apply abs_len; [apply Hwf|exact Hf].
      + rewrite Hlen. apply abs_len; [apply Hwf|exact Hf].
    - destruct (wf0_to_positions _ (proj1 (Hwf i))) as [_ H2].
      rewrite mode_to_positions, base_to_positions in H2.
      change (t_coords (to_positions D (nth i s dummy))) with (abs D (nth i s dummy)) in H2.
      destruct (abs D (nth i s dummy)) as [|p0 r0]; [contradiction|]. exact H2.
  Qed.
End C15.

Print Assumptions py_slice_valid.
Print Assumptions py_slice_plain.
Print Assumptions py_slice_fuel_enough.
Print Assumptions abs_to_positions.
Print Assumptions tel_core.
Print Assumptions abs_to_displacements.
Print Assumptions wf_to_positions.
Print Assumptions wf_to_displacements.
Print Assumptions query_pos.
Print Assumptions query_disp.
Print Assumptions query_cum.
Print Assumptions step_read_only.
Print Assumptions run_read_only.
Print Assumptions query_stable.
Print Assumptions slice_new.
Print Assumptions filter_new.
Print Assumptions extend_abs.
Print Assumptions extend_wf.

(* ====================================================================== *)
(* sanity checks of the statements on concrete inputs (D = 8)              *)
(* ====================================================================== *)

Definition ex_t0 : traj :=
  {| t_mode := MPos; t_coords := [[1; 9; -3]; [6; 2; 7]; [5; 5; 5]; [13; -6; 0]]; t_base := [1; 9; -3] |}.
(* a half-cell step in both directions *)
Definition ex_t1 : traj := {| t_mode := MPos; t_coords := [[0]; [4]; [8]]; t_base := [0] |}.

Example ex_abs : abs 8 ex_t0 = [[1; 1; 5]; [6; 2; 7]; [5; 5; 5]; [5; 2; 0]].
Proof. vm_compute. reflexivity. Qed.
Example ex_abs_disp : abs 8 (to_displacements 8 ex_t0) = abs 8 ex_t0.
Proof. vm_compute. reflexivity. Qed.
Example ex_abs_disp_pos : abs 8 (to_positions 8 (to_displacements 8 (to_positions 8 ex_t0))) = abs 8 ex_t0.
Proof. vm_compute. reflexivity. Qed.
Example ex_abs_tie : abs 8 (to_displacements 8 ex_t1) = abs 8 ex_t1.
Proof. vm_compute. reflexivity. Qed.
Example ex_no_tie : frames_no_tie 8 (abs 8 ex_t0) = true /\ frames_no_tie 8 (abs 8 ex_t1) = false.
Proof. vm_compute. split; reflexivity. Qed.
Example ex_disp : snd (step 8 [ex_t0] (QDisp 0)) = RVal (spec_disp 8 (abs 8 ex_t0)).
Proof. vm_compute. reflexivity. Qed.
Example ex_cum : snd (step 8 [ex_t0] (QCum 0)) = RVal (spec_cum 8 (abs 8 ex_t0)).
Proof. vm_compute. reflexivity. Qed.
(* the no-tie hypothesis of query_disp is needed: on unwrapped coordinates with a half-cell
   step the stored displacements differ from those of the wrapped positions *)
Example ex_disp_tie : snd (step 8 [ex_t1] (QDisp 0)) = RVal [[0]; [4]; [4]] /\
                      spec_disp 8 (abs 8 ex_t1) = [[0]; [4]; [-4]].
Proof. vm_compute. split; reflexivity. Qed.
Example ex_slice : py_slice (Some (-3)) None (Some (-2)) 4 = Some [1] /\
                   py_slice None None (Some (-1)) 4 = Some [3; 2; 1; 0] /\
                   py_slice (Some 1) (Some 10) (Some 2) 4 = Some [1; 3] /\
                   py_slice (Some 1) (Some 3) None 4 = Some (zrange 1 2) /\
                   py_slice None None (Some 0) 4 = None.
Proof. vm_compute. repeat split; reflexivity. Qed.
Example ex_run :
  let '(s', rs) := run 8 [ex_t0; ex_t1]
     [QDisp 0; OSlice 0 (Some 1) None (Some 2); QCum 1; OFilter 0 [true; false; true]; QPos 0; QDisp 2] in
  map (abs 8) s' = [abs 8 ex_t0; abs 8 ex_t1; [[6; 2; 7]; [5; 2; 0]];
                    [[1; 5]; [6; 7]; [5; 5]; [5; 0]]]
  /\ nth 1 rs RNone = RVal [[6; 2; 7]; [5; 2; 0]].
Proof. vm_compute. split; reflexivity. Qed.
Example ex_extend :
  let '(s', _) := run 8 [ex_t0; ex_t1] [QDisp 0; OExtend 0 0; OExtend 1 0] in
  map (abs 8) s' = [abs 8 ex_t0 ++ abs 8 ex_t0; abs 8 ex_t1 ++ abs 8 ex_t0 ++ abs 8 ex_t0].
Proof. vm_compute. reflexivity. Qed.
