(* C14 -- theorems about the derived trajectory metrics model (Model/C14.v).
   Scaling laws (cell, time, charge), Haven ratio, amplitudes (partition / sum / scaling),
   attempt frequency (meanfreq) invariances, mean/std over parts. *)
From Coq Require Import Reals List ZArith Lia Lra.
From GV Require Import Model.C14.
Import ListNotations.
Open Scope R_scope.

(* ====================================================================== *)
(* generic facts about rsum / rmean                                        *)
(* ====================================================================== *)

Lemma rsum_app : forall a b, rsum (a ++ b) = rsum a + rsum b.
Proof.
  induction a as [|x a IH]; intros b; cbn [app rsum].
  - ring.
  - rewrite IH. ring.
Qed.

Lemma rsum_concat : forall ll, rsum (map rsum ll) = rsum (concat ll).
Proof.
  induction ll as [|l ll IH]; cbn [map rsum concat].
  - reflexivity.
  - rewrite rsum_app, IH. reflexivity.
Qed.

(* if f = c * g pointwise then the sums are related by the factor c *)
Lemma rsum_map_factor {A} (f g : A -> R) (c : R) :
  (forall a, f a = c * g a) -> forall l, rsum (map f l) = c * rsum (map g l).
Proof.
  intros H. induction l as [|a l IH]; cbn [map rsum].
  - ring.
  - rewrite IH, H. ring.
Qed.

Lemma rsum_map_scale : forall k l, rsum (map (Rmult k) l) = k * rsum l.
Proof.
  intros k l. rewrite (rsum_map_factor (Rmult k) (fun x => x) k).
  - rewrite map_id. reflexivity.
  - reflexivity.
Qed.

Lemma rsum_nonneg : forall l, (forall x, In x l -> 0 <= x) -> 0 <= rsum l.
Proof.
  induction l as [|x l IH]; intros H; cbn [rsum].
  - lra.
  - assert (0 <= x) by (apply H; left; reflexivity).
    assert (0 <= rsum l) by (apply IH; intros y Hy; apply H; right; exact Hy).
    lra.
Qed.

Lemma rsum_const : forall l c, (forall x, In x l -> x = c) -> rsum l = INR (length l) * c.
Proof.
  induction l as [|x l IH]; intros c H.
  - cbn. ring.
  - change (length (x :: l)) with (S (length l)). rewrite S_INR. cbn [rsum].
    rewrite (IH c) by (intros y Hy; apply H; right; exact Hy).
    rewrite (H x) by (left; reflexivity). ring.
Qed.

(* ====================================================================== *)
(* (1) particle density scales with 1/k^3                                  *)
(* ====================================================================== *)

Theorem density_scale : forall n vol k, 0 < k -> vol <> 0 ->
  particle_density n (k*k*k*vol) = particle_density n vol / (k*k*k).
Proof.
  intros n vol k Hk Hv. unfold particle_density, angstrom. field. split; lra.
Qed.
Print Assumptions density_scale.

(* ====================================================================== *)
(* (2) tracer diffusivity / msd scale with k^2                             *)
(* ====================================================================== *)

Theorem diffusivity_scale_cell : forall msd dim t k, dim <> 0 -> t <> 0 ->
  tracer_diffusivity (k*k*msd) dim t = k*k * tracer_diffusivity msd dim t.
Proof.
  intros msd dim t k _ _. unfold tracer_diffusivity, Rdiv. ring.
Qed.
Print Assumptions diffusivity_scale_cell.

(* no side condition on the length: for dists = [] both sides are 0 * / 0 resp. k*k*(0 * / 0),
   which agree by ring whatever / 0 is *)
Theorem msd_final_scale : forall dists k,
  msd_final (map (Rmult k) dists) = k*k * msd_final dists.
Proof.
  intros dists k. unfold msd_final, rmean.
  rewrite map_map, !map_length.
  rewrite (rsum_map_factor (fun x => k * x * (k * x)) (fun d => d * d) (k*k)).
  - unfold Rdiv. ring.
  - intros a. ring.
Qed.
Print Assumptions msd_final_scale.

(* ====================================================================== *)
(* (3) tracer diffusivity scales with 1/s under a change of time unit      *)
(* ====================================================================== *)

Theorem diffusivity_scale_time : forall msd dim t s, 0 < s -> dim <> 0 -> t <> 0 ->
  tracer_diffusivity msd dim (s*t) = tracer_diffusivity msd dim t / s.
Proof.
  intros msd dim t s Hs Hd Ht. unfold tracer_diffusivity. field. repeat split; lra.
Qed.
Print Assumptions diffusivity_scale_time.

(* ====================================================================== *)
(* (4) tracer conductivity                                                 *)
(* ====================================================================== *)

Theorem conductivity_scale_cell : forall z D rho T k, 0 < k -> T <> 0 ->
  tracer_conductivity z (k*k*D) (rho/(k*k*k)) T = tracer_conductivity z D rho T / k.
Proof.
  intros z D rho T k Hk HT. unfold tracer_conductivity, k_B. field. repeat split; lra.
Qed.
Print Assumptions conductivity_scale_cell.

(* composed with (1) and (2): the cell enters through the diffusivity and the density *)
Theorem conductivity_scale_cell_full : forall z msd dim t n vol T k,
  0 < k -> vol <> 0 -> dim <> 0 -> t <> 0 -> T <> 0 ->
  tracer_conductivity z (tracer_diffusivity (k*k*msd) dim t) (particle_density n (k*k*k*vol)) T
  = tracer_conductivity z (tracer_diffusivity msd dim t) (particle_density n vol) T / k.
Proof.
  intros z msd dim t n vol T k Hk Hv Hd Ht HT.
  rewrite diffusivity_scale_cell by assumption.
  rewrite density_scale by assumption.
  apply conductivity_scale_cell; assumption.
Qed.
Print Assumptions conductivity_scale_cell_full.

Theorem conductivity_charge_quadratic : forall c z D rho T,
  tracer_conductivity (c*z) D rho T = c*c * tracer_conductivity z D rho T.
Proof.
  intros. unfold tracer_conductivity, Rdiv. ring.
Qed.
Print Assumptions conductivity_charge_quadratic.

(* ====================================================================== *)
(* (5) Haven ratio of identically moving atoms; weighted mean              *)
(* ====================================================================== *)

Theorem haven_identical : forall d, d <> 0 -> haven_ratio d d = 1.
Proof.
  intros d Hd. unfold haven_ratio. field. exact Hd.
Qed.
Print Assumptions haven_identical.

Theorem weighted_mean_identical : forall (ws : list R) x, rsum ws <> 0 ->
  rsum (map (fun w => w * x) ws) / rsum ws = x.
Proof.
  intros ws x H.
  rewrite (rsum_map_factor (fun w => w * x) (fun w => w) x) by (intros; ring).
  rewrite map_id. field. exact H.
Qed.
Print Assumptions weighted_mean_identical.

(* ====================================================================== *)
(* (6) amplitudes sum to the final distance                                *)
(* ====================================================================== *)

(* array_split partitions the series whatever the cut points are *)
Lemma split_at_concat : forall cuts prev l, concat (split_at prev cuts l) = l.
Proof.
  induction cuts as [|c r IH]; intros prev l; cbn [split_at concat].
  - apply app_nil_r.
  - rewrite IH. apply firstn_skipn.
Qed.
Print Assumptions split_at_concat.

Theorem pieces_concat : forall sp, concat (pieces sp) = sp.
Proof.
  intros sp. unfold pieces. apply split_at_concat.
Qed.
Print Assumptions pieces_concat.

Theorem amplitudes_sum : forall sp, rsum (amplitudes sp) = rsum sp.
Proof.
  intros sp. unfold amplitudes. rewrite rsum_concat, pieces_concat. reflexivity.
Qed.
Print Assumptions amplitudes_sum.

Lemma last_cons_default {A} : forall (r : list A) x d, last (x :: r) d = last r x.
Proof.
  induction r as [|y r IH]; intros x d.
  - reflexivity.
  - change (last (x :: y :: r) d) with (last (y :: r) d).
    rewrite !IH. reflexivity.
Qed.

Lemma diffs_sum : forall l prev, rsum (diffs prev l) = last l prev - prev.
Proof.
  induction l as [|x r IH]; intros prev.
  - cbn. ring.
  - cbn [diffs rsum]. rewrite IH, last_cons_default. ring.
Qed.
Print Assumptions diffs_sum.

Theorem speed_sum : forall dist, rsum (speed dist) = last dist 0.
Proof.
  intros dist. unfold speed. rewrite diffs_sum. ring.
Qed.
Print Assumptions speed_sum.

Theorem amplitudes_sum_final_distance : forall dist,
  rsum (amplitudes (speed dist)) = last dist 0.
Proof.
  intros dist. rewrite amplitudes_sum. apply speed_sum.
Qed.
Print Assumptions amplitudes_sum_final_distance.

(* ====================================================================== *)
(* (7) amplitudes scale with the cell                                      *)
(* ====================================================================== *)

Theorem sgn_scale : forall k x, 0 < k -> sgn (k * x) = sgn x.
Proof.
  intros k x Hk. unfold sgn.
  destruct (Rlt_dec 0 x) as [Hp|Hp].
  - assert (0 < k * x) by (apply Rmult_lt_0_compat; assumption).
    destruct (Rlt_dec 0 (k * x)); [reflexivity | contradiction].
  - destruct (Rlt_dec x 0) as [Hn|Hn].
    + assert (k * x < 0) by nra.
      destruct (Rlt_dec 0 (k * x)); [lra|].
      destruct (Rlt_dec (k * x) 0); [reflexivity | contradiction].
    + assert (x = 0) by lra. subst x.
      destruct (Rlt_dec 0 (k * 0)); [lra|].
      destruct (Rlt_dec (k * 0) 0); [lra | reflexivity].
Qed.
Print Assumptions sgn_scale.

Lemma diffs_scale : forall k l prev,
  diffs (k * prev) (map (Rmult k) l) = map (Rmult k) (diffs prev l).
Proof.
  intros k. induction l as [|x r IH]; intros prev; cbn [map diffs].
  - reflexivity.
  - rewrite IH. f_equal. ring.
Qed.

Theorem speed_scale : forall k dist, speed (map (Rmult k) dist) = map (Rmult k) (speed dist).
Proof.
  intros k dist. unfold speed. rewrite <- diffs_scale.
  replace (k * 0) with 0 by ring. reflexivity.
Qed.
Print Assumptions speed_scale.

Lemma split_at_map : forall (f : R -> R) cuts prev l,
  split_at prev cuts (map f l) = map (map f) (split_at prev cuts l).
Proof.
  intros f. induction cuts as [|c r IH]; intros prev l; cbn [split_at map].
  - reflexivity.
  - rewrite firstn_map, skipn_map, IH. reflexivity.
Qed.

Lemma map_sgn_scale : forall k sp, 0 < k -> map sgn (map (Rmult k) sp) = map sgn sp.
Proof.
  intros k sp Hk. rewrite map_map. apply map_ext. intros a. apply sgn_scale. exact Hk.
Qed.

Theorem pieces_scale : forall sp k, 0 < k ->
  pieces (map (Rmult k) sp) = map (map (Rmult k)) (pieces sp).
Proof.
  intros sp k Hk. unfold pieces. rewrite map_sgn_scale by exact Hk. apply split_at_map.
Qed.
Print Assumptions pieces_scale.

Theorem amplitudes_scale : forall sp k, 0 < k ->
  amplitudes (map (Rmult k) sp) = map (Rmult k) (amplitudes sp).
Proof.
  intros sp k Hk. unfold amplitudes. rewrite pieces_scale by exact Hk.
  rewrite !map_map. apply map_ext. intros l. apply rsum_map_scale.
Qed.
Print Assumptions amplitudes_scale.

(* the whole pipeline: scaling the distances scales the amplitudes *)
Theorem amplitudes_speed_scale : forall dist k, 0 < k ->
  amplitudes (speed (map (Rmult k) dist)) = map (Rmult k) (amplitudes (speed dist)).
Proof.
  intros dist k Hk. rewrite speed_scale. apply amplitudes_scale. exact Hk.
Qed.
Print Assumptions amplitudes_speed_scale.

(* ====================================================================== *)
(* (8) attempt frequency                                                   *)
(* ====================================================================== *)

Lemma nbins_map : forall (f : R -> R) x, nbins (map f x) = nbins x.
Proof.
  intros f x. unfold nbins. rewrite map_length. reflexivity.
Qed.

Theorem meanfreq_scale_signal : forall P x fs c, P_homogeneous P -> c <> 0 ->
  rsum (map (fun k => P x k) (seq 0 (nbins x))) <> 0 ->
  meanfreq P (map (Rmult c) x) fs = meanfreq P x fs.
Proof.
  intros P x fs c HP Hc Hden. unfold meanfreq.
  rewrite nbins_map, map_length.
  rewrite (rsum_map_factor
             (fun k => P (map (Rmult c) x) k * (INR k * fs / INR (length x)))
             (fun k => P x k * (INR k * fs / INR (length x))) (c*c))
    by (intros a; rewrite HP; ring).
  rewrite (rsum_map_factor (fun k => P (map (Rmult c) x) k) (fun k => P x k) (c*c))
    by (intros a; rewrite HP; ring).
  field. split; assumption.
Qed.
Print Assumptions meanfreq_scale_signal.

(* the hypothesis s <> 0 is not used: division is multiplication by the (total) inverse *)
Theorem meanfreq_scale_fs : forall P x fs s, s <> 0 ->
  meanfreq P x (fs / s) = meanfreq P x fs / s.
Proof.
  intros P x fs s _. unfold meanfreq.
  rewrite (rsum_map_factor
             (fun k => P x k * (INR k * (fs / s) / INR (length x)))
             (fun k => P x k * (INR k * fs / INR (length x))) (/ s))
    by (intros a; unfold Rdiv; ring).
  unfold Rdiv. ring.
Qed.
Print Assumptions meanfreq_scale_fs.

(* ====================================================================== *)
(* (9) mean / std over parts                                               *)
(* ====================================================================== *)

Definition rstd (l : list R) : R := sqrt (rmean (map (fun x => (x - rmean l)^2) l)).

Theorem rmean_scale : forall k l, rmean (map (Rmult k) l) = k * rmean l.
Proof.
  intros k l. unfold rmean. rewrite rsum_map_scale, map_length. unfold Rdiv. ring.
Qed.
Print Assumptions rmean_scale.

Theorem rstd_scale : forall k l, 0 <= k -> rstd (map (Rmult k) l) = k * rstd l.
Proof.
  intros k l Hk. unfold rstd. rewrite rmean_scale, map_map.
  assert (E : rmean (map (fun x => (k * x - k * rmean l)^2) l)
              = (k*k) * rmean (map (fun x => (x - rmean l)^2) l)).
  { unfold rmean at 1 3. rewrite !map_length.
    rewrite (rsum_map_factor (fun x => (k * x - k * rmean l)^2)
                             (fun x => (x - rmean l)^2) (k*k)) by (intros a; ring).
    unfold Rdiv. ring. }
  rewrite E. rewrite sqrt_mult_alt by nra. rewrite sqrt_square by exact Hk. reflexivity.
Qed.
Print Assumptions rstd_scale.

Theorem rmean_const : forall l c, l <> [] -> (forall x, In x l -> x = c) -> rmean l = c.
Proof.
  intros l c Hne H. unfold rmean. rewrite (rsum_const l c H).
  field. apply not_0_INR. destruct l; [contradiction | discriminate].
Qed.
Print Assumptions rmean_const.

Theorem rstd_const : forall l c, l <> [] -> (forall x, In x l -> x = c) -> rstd l = 0.
Proof.
  intros l c Hne H. unfold rstd. rewrite (rmean_const l c Hne H).
  assert (E : rsum (map (fun x => (x - c)^2) l) = 0).
  { rewrite (rsum_const _ 0).
    - ring.
    - intros y Hy. apply in_map_iff in Hy. destruct Hy as [x [<- Hx]].
      rewrite (H x Hx). ring. }
  unfold rmean. rewrite E. unfold Rdiv. rewrite Rmult_0_l. apply sqrt_0.
Qed.
Print Assumptions rstd_const.

Corollary rmean_repeat : forall c n, (0 < n)%nat -> rmean (repeat c n) = c.
Proof.
  intros c n Hn. apply rmean_const.
  - destruct n; [lia | discriminate].
  - intros x Hx. apply repeat_spec in Hx. exact Hx.
Qed.
Print Assumptions rmean_repeat.

Corollary rstd_repeat : forall c n, (0 < n)%nat -> rstd (repeat c n) = 0.
Proof.
  intros c n Hn. apply (rstd_const _ c).
  - destruct n; [lia | discriminate].
  - intros x Hx. apply repeat_spec in Hx. exact Hx.
Qed.
Print Assumptions rstd_repeat.
