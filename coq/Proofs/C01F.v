(* C01 (float clause) -- theorems about np.mod(x, 1) in binary64 (Model/C01F.v).
   B1  frac_part_range, frac_part_nonneg, frac_part_nonpos
   B2  wrapF_old_range : 0 <= wrapF_old x <= 1
   B3  wrapF_range     : 0 <= wrapF x < 1          (the repaired code never returns 1)
   B4  wrapF_old_hits_one_refuted : wrapF_old (-2^-60) = 1   (the old code does return 1)
   B5  wrapF_congr     : wrapF x is x up to a whole translation, within 2^-53 (even 2^-54)
   B6  vm_compute examples on the PrimFloat twin here; the formal link is in Proofs/C01P.v *)
From Coq Require Import ZArith Reals Lra Lia.
From Flocq Require Import Core.
From Coq Require Import PrimFloat Uint63 SpecFloat FloatOps.
From GV Require Import Model.C01F.
Open Scope R_scope.

Local Instance prec53_gt_0 : Prec_gt_0 53.
Proof. reflexivity. Qed.
Local Instance fexp64_valid : Valid_exp fexp64 := FLT_exp_valid (-1074) 53.
Local Instance fexp64_monotone : Monotone_exp fexp64 := FLT_exp_monotone (-1074) 53.

(* ====================================================================== *)
(* B1                                                                      *)
(* ====================================================================== *)

Lemma frac_part_pos_case x : 0 <= x -> 0 <= frac_part x < 1.
Proof.
  intro Hx. unfold frac_part. rewrite (Ztrunc_floor x Hx).
  pose proof (Zfloor_lb x). pose proof (Zfloor_ub x). lra.
Qed.

Lemma frac_part_neg_case x : x <= 0 -> -1 < frac_part x <= 0.
Proof.
  intro Hx. unfold frac_part. rewrite (Ztrunc_ceil x Hx).
  pose proof (Zceil_lb x). pose proof (Zceil_ub x). lra.
Qed.

Theorem frac_part_range : forall x, -1 < frac_part x < 1.
Proof.
  intro x. destruct (Rle_or_lt 0 x) as [H|H].
  - pose proof (frac_part_pos_case x H). lra.
  - pose proof (frac_part_neg_case x (Rlt_le _ _ H)). lra.
Qed.
Print Assumptions frac_part_range.

Theorem frac_part_nonneg : forall x, 0 <= x -> 0 <= frac_part x.
Proof. intros x H. apply (frac_part_pos_case x H). Qed.
Print Assumptions frac_part_nonneg.

Theorem frac_part_nonpos : forall x, x <= 0 -> frac_part x <= 0.
Proof. intros x H. apply (frac_part_neg_case x H). Qed.
Print Assumptions frac_part_nonpos.

(* the fractional part differs from x by an integer (by definition) *)
Lemma frac_part_congr x : frac_part x = x + IZR (- Ztrunc x).
Proof. unfold frac_part. rewrite opp_IZR. ring. Qed.

(* ====================================================================== *)
(* rounding helpers                                                        *)
(* ====================================================================== *)

Lemma rnd64_le x y : x <= y -> rnd64 x <= rnd64 y.
Proof. intro H. unfold rnd64. apply round_le; auto with typeclass_instances. Qed.

Lemma rnd64_0 : rnd64 0 = 0.
Proof. unfold rnd64. apply round_0. auto with typeclass_instances. Qed.

Lemma format64_1 : generic_format radix2 fexp64 1.
Proof.
  change 1 with (bpow radix2 0). apply generic_format_bpow. unfold fexp64, FLT_exp. lia.
Qed.

Lemma rnd64_1 : rnd64 1 = 1.
Proof. unfold rnd64. apply round_generic; [auto with typeclass_instances|exact format64_1]. Qed.

Lemma bpow_m53_m54 : bpow radix2 (-53) = 2 * bpow radix2 (-54).
Proof.
  change (-53)%Z with (1 + -54)%Z. rewrite bpow_plus. reflexivity.
Qed.

Lemma ulp_lt_1 y : 0 < y < 1 -> Ulp.ulp radix2 fexp64 y <= bpow radix2 (-53).
Proof.
  intros [H0 H1]. rewrite ulp_neq_0 by lra. apply bpow_le. unfold cexp.
  assert (Hm : (mag radix2 y <= 0)%Z).
  { apply mag_le_bpow; [lra|]. rewrite Rabs_pos_eq by lra. exact H1. }
  unfold fexp64, FLT_exp. lia.
Qed.

Lemma rnd64_err_lt_1 y : 0 < y < 1 -> Rabs (rnd64 y - y) <= bpow radix2 (-54).
Proof.
  intro H. unfold rnd64.
  pose proof (error_le_half_ulp radix2 fexp64 (fun n => negb (Z.even n)) y) as He.
  pose proof (ulp_lt_1 y H) as Hu. rewrite bpow_m53_m54 in Hu.
  lra.
Qed.

(* ====================================================================== *)
(* B2                                                                      *)
(* ====================================================================== *)

Theorem wrapF_old_range : forall x, 0 <= wrapF_old x <= 1.
Proof.
  intro x. unfold wrapF_old. cbv zeta. pose proof (frac_part_range x) as Hr.
  destruct (Rlt_bool_spec (frac_part x) 0) as [Hneg|Hpos].
  - rewrite <- rnd64_0 at 1. rewrite <- rnd64_1 at 3.
    split; apply rnd64_le; lra.
  - lra.
Qed.
Print Assumptions wrapF_old_range.

(* ====================================================================== *)
(* B3                                                                      *)
(* ====================================================================== *)

Theorem wrapF_range : forall x, 0 <= wrapF x < 1.
Proof.
  intro x. unfold wrapF. cbv zeta. pose proof (wrapF_old_range x) as H.
  destruct (Req_bool_spec (wrapF_old x) 1) as [Heq|Hne]; lra.
Qed.
Print Assumptions wrapF_range.

(* ====================================================================== *)
(* B4                                                                      *)
(* ====================================================================== *)

Lemma bpow_m60_pos : 0 < bpow radix2 (-60).
Proof. apply bpow_gt_0. Qed.

Lemma bpow_m54_m60 : bpow radix2 (-54) = 64 * bpow radix2 (-60).
Proof. change (-54)%Z with (6 + -60)%Z. rewrite bpow_plus. change (bpow radix2 6) with 64. reflexivity. Qed.

Lemma bpow_m60_lt_1 : bpow radix2 (-60) < 1.
Proof. change 1 with (bpow radix2 0). apply bpow_lt. lia. Qed.

Lemma frac_part_small_neg x : -1 < x <= 0 -> frac_part x = x.
Proof.
  intros [H1 H0]. unfold frac_part. rewrite (Ztrunc_ceil x H0).
  rewrite (Zceil_imp 0 x); [simpl; lra|]. simpl. lra.
Qed.

(* a format number in (1 - 2^-53, 1] is 1 *)
Lemma format_near_one f : generic_format radix2 fexp64 f -> 1 - bpow radix2 (-53) < f <= 1 -> f = 1.
Proof.
  intros Ff [Hlo Hhi]. destruct Hhi as [Hlt|Heq]; [|exact Heq]. exfalso.
  pose proof (pred_ge_gt radix2 fexp64 f 1 Ff format64_1 Hlt) as Hp.
  change 1 with (bpow radix2 0) in Hp at 1. rewrite pred_bpow in Hp.
  change (fexp64 0) with (-53)%Z in Hp. simpl (bpow radix2 0) in Hp. lra.
Qed.

(* rounding 1 - t for 0 < t < 2^-54 gives 1 *)
Lemma rnd64_just_below_one t : 0 < t -> t < bpow radix2 (-54) -> rnd64 (1 - t) = 1.
Proof.
  intros Ht0 Ht. pose proof bpow_m53_m54 as H53.
  assert (H54 : bpow radix2 (-54) < 1).
  { change 1 with (bpow radix2 0). apply bpow_lt. lia. }
  apply format_near_one.
  - unfold rnd64. apply generic_format_round; auto with typeclass_instances.
  - split.
    + pose proof (rnd64_err_lt_1 (1 - t) ltac:(lra)) as He.
      apply Rabs_le_inv in He. lra.
    + rewrite <- rnd64_1 at 2. apply rnd64_le. lra.
Qed.

Theorem wrapF_old_at_m2m60 : wrapF_old (- bpow radix2 (-60)) = 1.
Proof.
  pose proof bpow_m60_pos as Hp. pose proof bpow_m60_lt_1 as Hl. pose proof bpow_m54_m60 as H54.
  unfold wrapF_old. cbv zeta. rewrite frac_part_small_neg by lra.
  destruct (Rlt_bool_spec (- bpow radix2 (-60)) 0) as [_|H]; [|lra].
  replace (- bpow radix2 (-60) + 1) with (1 - bpow radix2 (-60)) by ring.
  apply rnd64_just_below_one; lra.
Qed.
Print Assumptions wrapF_old_at_m2m60.

Theorem wrapF_old_hits_one_refuted : exists x, wrapF_old x = 1.
Proof. exists (- bpow radix2 (-60)). exact wrapF_old_at_m2m60. Qed.
Print Assumptions wrapF_old_hits_one_refuted.

(* so the range claim `wrapF_old x < 1` is false for the old code *)
Theorem wrapF_old_lt_one_refuted : ~ (forall x, 0 <= wrapF_old x < 1).
Proof. intro H. specialize (H (- bpow radix2 (-60))). rewrite wrapF_old_at_m2m60 in H. lra. Qed.
Print Assumptions wrapF_old_lt_one_refuted.

(* the whole interval (-2^-54, 0) is mapped to 1 by the old code, and to 0 by the repair *)
Theorem wrapF_old_hits_one_interval x : - bpow radix2 (-54) < x < 0 -> wrapF_old x = 1.
Proof.
  intros [Hlo Hhi].
  assert (H54 : bpow radix2 (-54) < 1).
  { change 1 with (bpow radix2 0). apply bpow_lt. lia. }
  unfold wrapF_old. cbv zeta. rewrite frac_part_small_neg by lra.
  destruct (Rlt_bool_spec x 0) as [_|H]; [|lra].
  replace (x + 1) with (1 - (- x)) by ring.
  apply rnd64_just_below_one; lra.
Qed.
Print Assumptions wrapF_old_hits_one_interval.

Theorem wrapF_repaired_interval x : - bpow radix2 (-54) < x < 0 -> wrapF x = 0.
Proof.
  intro H. unfold wrapF. cbv zeta. rewrite (wrapF_old_hits_one_interval x H).
  destruct (Req_bool_spec 1 1) as [_|Hne]; [reflexivity|]. exfalso. apply Hne. reflexivity.
Qed.
Print Assumptions wrapF_repaired_interval.

(* ====================================================================== *)
(* B5                                                                      *)
(* ====================================================================== *)

(* stronger constant 2^-54 *)
Theorem wrapF_congr_54 : forall x, exists k : Z, Rabs (wrapF x - (x + IZR k)) <= bpow radix2 (-54).
Proof.
  intro x. pose proof (frac_part_range x) as Hr. pose proof (frac_part_congr x) as Hc.
  pose proof (bpow_ge_0 radix2 (-54)) as Hb.
  unfold wrapF, wrapF_old. cbv zeta.
  destruct (Rlt_bool_spec (frac_part x) 0) as [Hneg|Hpos].
  - pose proof (rnd64_err_lt_1 (frac_part x + 1) ltac:(lra)) as He.
    destruct (Req_bool_spec (rnd64 (frac_part x + 1)) 1) as [Heq|Hne].
    + (* rounded up to 1, mapped to 0: k = - trunc x *)
      exists (- Ztrunc x)%Z. rewrite <- Hc. rewrite Heq in He.
      replace (0 - frac_part x) with (1 - (frac_part x + 1)) by ring. exact He.
    + exists (- Ztrunc x + 1)%Z. rewrite plus_IZR.
      replace (x + (IZR (- Ztrunc x) + 1)) with (frac_part x + 1) by (rewrite Hc; ring).
      exact He.
  - destruct (Req_bool_spec (frac_part x) 1) as [Heq|Hne]; [lra|].
    exists (- Ztrunc x)%Z. rewrite <- Hc.
    replace (frac_part x - frac_part x) with 0 by ring. rewrite Rabs_R0. exact Hb.
Qed.
Print Assumptions wrapF_congr_54.

Theorem wrapF_congr : forall x, exists k : Z, Rabs (wrapF x - (x + IZR k)) <= bpow radix2 (-53).
Proof.
  intro x. destruct (wrapF_congr_54 x) as [k Hk]. exists k.
  pose proof (bpow_ge_0 radix2 (-54)). pose proof bpow_m53_m54. lra.
Qed.
Print Assumptions wrapF_congr.

(* non-negative inputs are wrapped exactly *)
Theorem wrapF_exact_nonneg : forall x, 0 <= x -> wrapF x = x - IZR (Zfloor x).
Proof.
  intros x Hx. pose proof (frac_part_pos_case x Hx) as Hr.
  unfold wrapF, wrapF_old. cbv zeta.
  destruct (Rlt_bool_spec (frac_part x) 0) as [Hneg|Hpos]; [lra|].
  destruct (Req_bool_spec (frac_part x) 1) as [Heq|Hne]; [lra|].
  unfold frac_part. rewrite (Ztrunc_floor x Hx). reflexivity.
Qed.
Print Assumptions wrapF_exact_nonneg.

(* ====================================================================== *)
(* the PrimFloat twin on the boundary inputs (general link: Proofs/C01P.v)   *)
(* ====================================================================== *)

Open Scope float_scope.

Example wrapP_old_hits_one : PrimFloat.eqb (wrapP_old (-0x1p-60)) 1 = true.
Proof. vm_compute. reflexivity. Qed.
Example wrapP_m2m60 : PrimFloat.eqb (wrapP (-0x1p-60)) 0 = true.
Proof. vm_compute. reflexivity. Qed.
Example wrapP_2_75 : PrimFloat.eqb (wrapP 2.75) 0.75 = true.
Proof. vm_compute. reflexivity. Qed.
Example wrapP_m2_75 : PrimFloat.eqb (wrapP (-2.75)) 0.25 = true.
Proof. vm_compute. reflexivity. Qed.
Example wrapP_1 : PrimFloat.eqb (wrapP 1) 0 = true.
Proof. vm_compute. reflexivity. Qed.
Example wrapP_m0 : PrimFloat.eqb (wrapP (-0)) 0 = true.
Proof. vm_compute. reflexivity. Qed.
Example wrapP_pred1 : PrimFloat.eqb (wrapP 0x1.fffffffffffffp-1) 0x1.fffffffffffffp-1 = true.
Proof. vm_compute. reflexivity. Qed.
Example wrapP_old_mdenorm : PrimFloat.eqb (wrapP_old (-0x1p-1074)) 1 = true.
Proof. vm_compute. reflexivity. Qed.
Example wrapP_mdenorm : PrimFloat.eqb (wrapP (-0x1p-1074)) 0 = true.
Proof. vm_compute. reflexivity. Qed.
