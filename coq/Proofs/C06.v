(* C06 -- theorems about the mean-squared-displacement model (Model/C06.v).
   Main result: the implementation's S1 - 2 S2 decomposition (S1 by the cumulative-sum
   recursion) equals the defining sum of squared lagged differences, for every lag
   tau <= T (the statements asked for use tau < T; the _le versions are slightly stronger).
   For tau > T the identity is FALSE (nth falls off the cumsum and returns the default 0,
   so s1_num = 2 * sum D while the definition gives the empty sum 0). *)
From GV Require Import Base.Prelude Model.C06.

(* ---------- generic facts on zsum / firstn / skipn / rev ---------- *)

Lemma zsum_firstn_skipn k l : zsum l = zsum (firstn k l) + zsum (skipn k l).
Proof. rewrite <- zsum_app, firstn_skipn. reflexivity. Qed.

Lemma zsum_rev l : zsum (rev l) = zsum l.
Proof.
  induction l as [|x l IH]; [reflexivity|].
  cbn [rev]. rewrite zsum_app. cbn [zsum]. lia.
Qed.

Lemma zsum_firstn_rev k l : (k <= length l)%nat ->
  zsum (firstn k (rev l)) = zsum (skipn (length l - k) l).
Proof.
  intro Hk.
  rewrite <- (firstn_skipn (length l - k) l) at 1.
  rewrite rev_app_distr, firstn_app.
  assert (Hlen : length (rev (skipn (length l - k) l)) = k).
  { rewrite rev_length, skipn_length. lia. }
  rewrite Hlen, Nat.sub_diag. cbn [firstn]. rewrite app_nil_r.
  rewrite <- Hlen at 1. rewrite firstn_all. apply zsum_rev.
Qed.

Lemma zsum_firstn_zip_add : forall k a b, length a = length b ->
  zsum (firstn k (zip_with Z.add a b)) = zsum (firstn k a) + zsum (firstn k b).
Proof.
  induction k as [|k IH]; intros a b Hl; [reflexivity|].
  destruct a as [|x a], b as [|y b]; cbn [length] in Hl; try discriminate; [reflexivity|].
  cbn [zip_with firstn zsum]. fold (zip_with Z.add a b).
  rewrite IH by lia. lia.
Qed.

Lemma zip_with_length {A B C} (f : A -> B -> C) : forall a b, length a = length b ->
  length (zip_with f a b) = length a.
Proof.
  induction a as [|x a IH]; intros [|y b] Hl; cbn [length] in *; try discriminate; [reflexivity|].
  cbn [zip_with length]. fold (zip_with f a b). rewrite IH by lia. reflexivity.
Qed.

(* the k-th entry of the running sum is acc + the sum of the first k+1 entries *)
Lemma nth_csum : forall l acc k, (k < length l)%nat ->
  nth k (csum acc l) 0 = acc + zsum (firstn (S k) l).
Proof.
  induction l as [|x l IH]; intros acc k Hk; cbn [length] in Hk; [lia|].
  destruct k as [|k].
  - cbn [csum nth firstn zsum]. lia.
  - cbn [csum nth]. rewrite IH by lia. cbn [firstn zsum]. lia.
Qed.

(* ---------- generic facts on lagged ---------- *)

Lemma lagged_ext {A} (f g : Z -> Z -> A) : (forall a b, f a b = g a b) ->
  forall xs ys, lagged f xs ys = lagged g xs ys.
Proof.
  intros H. induction xs as [|x xs IH]; intros [|y ys]; cbn [lagged]; try reflexivity.
  rewrite H, IH. reflexivity.
Qed.

Lemma lagged_map {A} (f : Z -> Z -> A) (h : Z -> Z) : forall xs ys,
  lagged f (map h xs) (map h ys) = lagged (fun a b => f (h a) (h b)) xs ys.
Proof.
  induction xs as [|x xs IH]; intros [|y ys]; cbn [lagged map]; try reflexivity.
  rewrite IH. reflexivity.
Qed.

(* separable summand: sum over the overlap of f(x_t) + g(y_t) *)
Lemma zsum_lagged_sep (f g : Z -> Z) : forall xs ys,
  zsum (lagged (fun a b => f a + g b) xs ys)
  = zsum (map f (firstn (length ys) xs)) + zsum (map g (firstn (length xs) ys)).
Proof.
  induction xs as [|x xs IH]; intros [|y ys]; cbn [lagged length firstn map zsum]; try reflexivity.
  rewrite IH. lia.
Qed.

(* (b-a)^2 = a^2 + b^2 - 2ab, summed *)
Lemma zsum_lagged_expand : forall xs ys,
  zsum (lagged (fun a b => (b - a) * (b - a)) xs ys)
  = zsum (lagged (fun a b => a * a + b * b) xs ys) - 2 * zsum (lagged (fun a b => a * b) xs ys).
Proof.
  induction xs as [|x xs IH]; intros [|y ys]; cbn [lagged zsum]; try reflexivity.
  rewrite IH. ring.
Qed.

Lemma zsum_lagged_scale (f : Z -> Z -> Z) (c : Z) : forall xs ys,
  zsum (lagged (fun a b => c * f a b) xs ys) = c * zsum (lagged f xs ys).
Proof.
  induction xs as [|x xs IH]; intros [|y ys]; cbn [lagged zsum]; try ring.
  rewrite IH. ring.
Qed.

Lemma zsum_lagged_sq_nonneg : forall xs ys,
  0 <= zsum (lagged (fun a b => (b - a) * (b - a)) xs ys).
Proof.
  induction xs as [|x xs IH]; intros [|y ys]; cbn [lagged zsum]; try lia.
  specialize (IH ys). pose proof (Z.square_nonneg (y - x)). lia.
Qed.

Lemma zsum_lagged_diag (f : Z -> Z -> Z) : (forall a, f a a = 0) ->
  forall xs, zsum (lagged f xs xs) = 0.
Proof.
  intros H. induction xs as [|x xs IH]; cbn [lagged zsum]; [reflexivity|].
  rewrite H, IH. reflexivity.
Qed.

Lemma last_default_irrel : forall (l : list Z) y d d', last (y :: l) d = last (y :: l) d'.
Proof.
  induction l as [|z l IH]; intros y d d'; [reflexivity|].
  change (last (y :: z :: l) d) with (last (z :: l) d).
  change (last (y :: z :: l) d') with (last (z :: l) d'). apply IH.
Qed.

Lemma skipn_length_last : forall (r : list Z) (x0 : Z),
  skipn (length r) (x0 :: r) = [last (x0 :: r) x0].
Proof.
  induction r as [|y r IH]; intros x0; [reflexivity|].
  cbn [length]. change (skipn (S (length r)) (x0 :: y :: r)) with (skipn (length r) (y :: r)).
  rewrite IH.
  change (last (x0 :: y :: r) x0) with (last (y :: r) x0).
  f_equal. apply last_default_irrel.
Qed.

(* ---------- (1) the cumulative-sum recursion ---------- *)

Theorem s1_is_sum_le : forall xs tau, (tau <= length xs)%nat ->
  s1_num xs tau = zsum (lagged (fun a b => a * a + b * b) xs (skipn tau xs)).
Proof.
  intros xs tau Htau.
  unfold s1_num. cbv zeta.
  change (zip_with Z.add (0 :: sq xs) (0 :: rev (sq xs)))
    with ((0 + 0) :: zip_with Z.add (sq xs) (rev (sq xs))).
  assert (Hd : length (sq xs) = length xs) by (unfold sq; apply map_length).
  assert (Hr : length (sq xs) = length (rev (sq xs))) by (rewrite rev_length; reflexivity).
  rewrite nth_csum.
  2:{ cbn [length]. rewrite zip_with_length by exact Hr. lia. }
  cbn [firstn zsum].
  rewrite zsum_firstn_zip_add by exact Hr.
  rewrite zsum_firstn_rev by lia.
  rewrite (zsum_lagged_sep (fun a => a * a) (fun b => b * b)).
  rewrite skipn_length.
  rewrite (firstn_all2 (n := length xs) (skipn tau xs)) by (rewrite skipn_length; lia).
  change (map (fun a => a * a)) with sq.
  unfold sq at 5 6. rewrite <- firstn_map, <- skipn_map. fold (sq xs).
  rewrite Hd.
  pose proof (zsum_firstn_skipn tau (sq xs)) as H1.
  pose proof (zsum_firstn_skipn (length xs - tau) (sq xs)) as H2.
  lia.
Qed.
Print Assumptions s1_is_sum_le.

Theorem s1_is_sum : forall xs tau, (tau < length xs)%nat ->
  s1_num xs tau = zsum (lagged (fun a b => a * a + b * b) xs (skipn tau xs)).
Proof. intros xs tau H. apply s1_is_sum_le. lia. Qed.
Print Assumptions s1_is_sum.

(* ---------- (2) S1 - 2 S2 is the definition ---------- *)

Theorem msd_decomp_le : forall xs tau, (tau <= length xs)%nat ->
  msd_impl_num xs tau = msd_num xs tau.
Proof.
  intros xs tau H. unfold msd_impl_num, msd_num, s2_num.
  rewrite s1_is_sum_le by exact H. rewrite zsum_lagged_expand. reflexivity.
Qed.
Print Assumptions msd_decomp_le.

Theorem msd_decomp : forall xs tau, (tau < length xs)%nat ->
  msd_impl_num xs tau = msd_num xs tau.
Proof. intros xs tau H. apply msd_decomp_le. lia. Qed.
Print Assumptions msd_decomp.

(* the side condition cannot be dropped: beyond the series length the recursion's lookup
   falls off the end *)
Lemma msd_decomp_fails_beyond_length : msd_impl_num [1] 2 <> msd_num [1] 2.
Proof. vm_compute. discriminate. Qed.
Print Assumptions msd_decomp_fails_beyond_length.

(* ---------- (3) lag 0 and non-negativity ---------- *)

Theorem msd_lag0 : forall xs, msd_num xs 0 = 0.
Proof.
  intros xs. unfold msd_num. cbn [skipn].
  apply zsum_lagged_diag. intros a. ring.
Qed.
Print Assumptions msd_lag0.

Theorem msd_nonneg : forall xs tau, 0 <= msd_num xs tau.
Proof. intros xs tau. unfold msd_num. apply zsum_lagged_sq_nonneg. Qed.
Print Assumptions msd_nonneg.

(* ---------- (4) three components ---------- *)

Theorem msd3_decomp : forall c tau, (forall xs, In xs c -> (tau < length xs)%nat) ->
  msd3_impl_num c tau = msd3_num c tau.
Proof.
  intros c tau H. unfold msd3_impl_num, msd3_num. f_equal.
  apply map_ext_in. intros xs Hin. apply msd_decomp. apply H. exact Hin.
Qed.
Print Assumptions msd3_decomp.

Theorem msd3_nonneg : forall c tau, 0 <= msd3_num c tau.
Proof.
  intros c tau. unfold msd3_num. induction c as [|xs c IH]; cbn [map zsum]; [lia|].
  pose proof (msd_nonneg xs tau). lia.
Qed.
Print Assumptions msd3_nonneg.

(* ---------- (5) translation invariance ---------- *)

Theorem msd_translate : forall xs k tau,
  msd_num (map (fun x => x + k) xs) tau = msd_num xs tau.
Proof.
  intros xs k tau. unfold msd_num.
  rewrite skipn_map, lagged_map. f_equal.
  apply lagged_ext. intros a b. ring.
Qed.
Print Assumptions msd_translate.

(* ---------- (6) the last lag is the squared final displacement ---------- *)

Theorem msd_last_lag : forall x0 r,
  msd_num (x0 :: r) (length (x0 :: r) - 1)
  = (last (x0 :: r) x0 - x0) * (last (x0 :: r) x0 - x0).
Proof.
  intros x0 r. unfold msd_num.
  replace (length (x0 :: r) - 1)%nat with (length r) by (cbn [length]; lia).
  rewrite skipn_length_last. cbn [lagged].
  destruct r; cbn [lagged zsum]; lia.
Qed.
Print Assumptions msd_last_lag.

(* ---------- (7) scaling ---------- *)

Theorem msd_scale : forall xs k tau,
  msd_num (map (fun x => k * x) xs) tau = k * k * msd_num xs tau.
Proof.
  intros xs k tau. unfold msd_num.
  rewrite skipn_map, lagged_map.
  rewrite <- (zsum_lagged_scale (fun a b => (b - a) * (b - a)) (k * k)). f_equal.
  apply lagged_ext. intros a b. ring.
Qed.
Print Assumptions msd_scale.
