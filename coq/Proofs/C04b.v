(* C04b -- further theorems about the jump scan:
   T3 default_sound / default_complete : the specification means what the English says;
   T1 scan_sound / scan_consistent / strict_subset : every reported jump carries the key of a default jump;
   T2 residence_monotone : raising minimal_residence only removes jumps. *)
From GV Require Import Base.Prelude Model.C03 Proofs.C03 Model.C04 Proofs.C04.

(* ---------- Z-indexed view of a history and of its suffixes ---------- *)
Definition at_ (o : list Z) (m : Z) : option Z := nth_error o (Z.to_nat m).

(* l is the suffix of o that starts at frame t *)
Definition sfx (o : list Z) (t : Z) (l : list Z) : Prop :=
  0 <= t /\ forall k : nat, nth_error l k = nth_error o (Z.to_nat t + k).

Lemma sfx_0 o : sfx o 0 o.
Proof. split; [lia|]. intro k. reflexivity. Qed.

Lemma sfx_cons o t x l : sfx o t (x :: l) -> at_ o t = Some x /\ sfx o (t + 1) l.
Proof.
  intros [Ht H]. split.
  - unfold at_. rewrite <- (Nat.add_0_r (Z.to_nat t)), <- H. reflexivity.
  - split; [lia|]. intro k.
    replace (Z.to_nat (t + 1) + k)%nat with (Z.to_nat t + S k)%nat by lia.
    rewrite <- H. reflexivity.
Qed.

Lemma sfx_nil o t m : sfx o t [] -> t <= m -> at_ o m = None.
Proof.
  intros [Ht H] Hm. unfold at_.
  replace (Z.to_nat m) with (Z.to_nat t + Z.to_nat (m - t))%nat by lia.
  rewrite <- H. destruct (Z.to_nat (m - t)); reflexivity.
Qed.

(* ====================================================================== *)
(* T3: meaning of the specification                                        *)
(* ====================================================================== *)

Definition last_ok (o : list Z) (t : Z) (last : option (Z * Z)) : Prop :=
  match last with
  | None => True
  | Some (b, tb) => b <> -1 /\ 0 <= tb < t /\ at_ o tb = Some b /\
                    forall m, tb < m < t -> at_ o m = Some (-1)
  end.

Definition jump_ok (o : list Z) (n : Z) (j : jump) : Prop :=
  j_atom j = n /\ j_from j <> -1 /\ j_to j <> -1 /\ j_from j <> j_to j /\ 0 <= j_start j < j_stop j /\
  at_ o (j_start j) = Some (j_from j) /\ at_ o (j_stop j) = Some (j_to j) /\
  (forall m, j_start j < m < j_stop j -> at_ o m = Some (-1)).

Lemma default_from_sound : forall l o n last t j,
  sfx o t l -> last_ok o t last -> In j (default_from n last t l) -> jump_ok o n j.
Proof.
  induction l as [|x l IH]; intros o n last t j Hs Hl Hin; [contradiction|].
  assert (Ht : 0 <= t) by (destruct Hs; assumption).
  apply sfx_cons in Hs. destruct Hs as [Hx Hs].
  cbn [default_from] in Hin.
  destruct (Z.eqb_spec x (-1)) as [Hx1|Hx1].
  - subst x. apply (IH o n last (t + 1) j Hs); [|exact Hin].
    destruct last as [[b tb]|]; [|exact I].
    destruct Hl as (Hb & Htb & Hob & Hbet). repeat split; try assumption; try lia.
    intros m Hm. destruct (Z.eq_dec m t) as [->|Hmt]; [exact Hx|apply Hbet; lia].
  - assert (Hnew : last_ok o (t + 1) (Some (x, t))).
    { repeat split; try assumption; try lia. }
    destruct last as [[b tb]|]; [|exact (IH o n _ _ j Hs Hnew Hin)].
    apply in_app_or in Hin. destruct Hin as [Hin|Hin]; [|exact (IH o n _ _ j Hs Hnew Hin)].
    destruct Hl as (Hb & Htb & Hob & Hbet).
    destruct (Z.eqb_spec x b) as [Hxb|Hxb]; cbn [negb] in Hin; [contradiction|].
    destruct Hin as [<-|[]]. unfold jump_ok. cbn [j_atom j_from j_to j_start j_stop].
    repeat split; try assumption; try lia; try congruence.
Qed.

Theorem default_sound : forall n o j, In j (default_jumps n o) ->
  j_atom j = n /\ j_from j <> -1 /\ j_to j <> -1 /\ j_from j <> j_to j /\ 0 <= j_start j < j_stop j /\
  nth_error o (Z.to_nat (j_start j)) = Some (j_from j) /\ nth_error o (Z.to_nat (j_stop j)) = Some (j_to j) /\
  (forall m, j_start j < m < j_stop j -> nth_error o (Z.to_nat m) = Some (-1)).
Proof.
  intros n o j Hin.
  exact (default_from_sound o o n None 0 j (sfx_0 o) I Hin).
Qed.
Print Assumptions default_sound.

Lemma default_from_complete : forall l o n last t s e a b,
  sfx o t l ->
  0 <= s < e -> at_ o s = Some a -> at_ o e = Some b -> a <> -1 -> b <> -1 -> a <> b ->
  (forall m, s < m < e -> at_ o m = Some (-1)) ->
  (t <= s \/ (last = Some (a, s) /\ s < t <= e)) ->
  In {| j_atom := n; j_from := a; j_to := b; j_start := s; j_stop := e |} (default_from n last t l).
Proof.
  induction l as [|x l IH]; intros o n last t s e a b Hs Hse Ha Hb Ha1 Hb1 Hab Hbet Hpos.
  - exfalso. assert (He : at_ o e = None) by (apply (sfx_nil o t e Hs); lia). congruence.
  - apply sfx_cons in Hs. destruct Hs as [Hx Hs]. cbn [default_from].
    destruct (Z.eqb_spec x (-1)) as [Hx1|Hx1].
    + subst x. apply (IH o n last (t + 1) s e a b Hs Hse Ha Hb Ha1 Hb1 Hab Hbet).
      destruct Hpos as [Hpos|[Hl Hpos]].
      * left. assert (s <> t) by (intros ->; congruence). lia.
      * right. split; [exact Hl|]. assert (e <> t) by (intros ->; congruence). lia.
    + assert (Hrec : In {| j_atom := n; j_from := a; j_to := b; j_start := s; j_stop := e |}
                        (default_from n (Some (x, t)) (t + 1) l) \/ (last = Some (a, s) /\ e = t /\ x = b)).
      { destruct Hpos as [Hpos|[Hl Hpos]].
        - left. apply (IH o n _ (t + 1) s e a b Hs Hse Ha Hb Ha1 Hb1 Hab Hbet).
          destruct (Z.eq_dec s t) as [->|Hst].
          + right. split; [congruence|lia].
          + left. lia.
        - destruct (Z.eq_dec e t) as [->|Het].
          + right. repeat split; congruence.
          + exfalso. assert (Hm : at_ o t = Some (-1)) by (apply Hbet; lia). congruence. }
      destruct Hrec as [Hrec|(Hl & -> & ->)].
      * destruct last as [[b' tb']|]; [apply in_or_app; right|]; exact Hrec.
      * subst last. apply in_or_app. left.
        rewrite (eqb_neq b a (not_eq_sym Hab)). cbn [negb]. left. reflexivity.
Qed.

Theorem default_complete : forall n o s e a b, 0 <= s < e ->
  nth_error o (Z.to_nat s) = Some a -> nth_error o (Z.to_nat e) = Some b ->
  a <> -1 -> b <> -1 -> a <> b -> (forall m, s < m < e -> nth_error o (Z.to_nat m) = Some (-1)) ->
  In {| j_atom := n; j_from := a; j_to := b; j_start := s; j_stop := e |} (default_jumps n o).
Proof.
  intros n o s e a b Hse Ha Hb Ha1 Hb1 Hab Hbet.
  apply (default_from_complete o o n None 0 s e a b (sfx_0 o) Hse Ha Hb Ha1 Hb1 Hab Hbet).
  left. lia.
Qed.
Print Assumptions default_complete.

(* ====================================================================== *)
(* step, split into its candidate part and its fromevent part              *)
(* ====================================================================== *)
Definition cj (n : Z) (c : cand) : jump :=
  {| j_atom := n; j_from := c_s c; j_to := c_d c; j_start := c_t c; j_stop := c_stop c |}.

Definition cpart (mr : Z) (c0 : option cand) (out0 : list jump) (e : row) : option cand * list jump :=
  match c0 with
  | Some c =>
      if r_t e - c_t c >=? mr then (None, out0 ++ [cj (r_atom e) c])
      else if negb (c_d c =? r_d e) then (None, out0) else (Some c, out0)
  | None => (None, out0)
  end.

Definition fe1_of (f0 : option pend) (e : row) : option pend :=
  if negb (r_s e =? -1) && negb (r_s e =? r_d e)
  then Some {| p_s := r_s e; p_d := r_d e; p_t := r_t e |} else f0.

Definition fpart (fe1 : option pend) (ca1 : option cand) (out1 : list jump) (e : row) : st :=
  match fe1 with
  | None => {| fe := None; ca := ca1; out := out1 |}
  | Some f =>
      if r_d e =? p_s f then {| fe := None; ca := None; out := out1 |}
      else if negb (r_di e =? -1) then
        {| fe := None; ca := None;
           out := out1 ++ [{| j_atom := r_atom e; j_from := p_s f; j_to := r_d e;
                              j_start := p_t f; j_stop := r_t e + 1 |}] |}
      else if negb (r_d e =? p_d f) then
        {| fe := None;
           ca := Some {| c_s := p_s f; c_d := r_d e; c_t := p_t f; c_stop := r_t e + 1 |};
           out := out1 |}
      else {| fe := fe1; ca := ca1; out := out1 |}
  end.

Lemma step_eq mr s e :
  step mr s e = fpart (fe1_of (fe s) e) (fst (cpart mr (ca s) (out s) e)) (snd (cpart mr (ca s) (out s) e)) e.
Proof.
  unfold step, cpart, fpart, fe1_of, cj.
  destruct (ca s) as [c|]; [|reflexivity].
  destruct (r_t e - c_t c >=? mr); [reflexivity|].
  destruct (negb (c_d c =? r_d e)); reflexivity.
Qed.

(* ====================================================================== *)
(* T2: raising minimal_residence only removes jumps                        *)
(* ====================================================================== *)
(* s runs under mr, s' under mr' >= mr *)
Definition Rca (n : Z) (c c' : option cand) (o : list jump) : Prop :=
  c' = c \/ (c = None /\ exists x, c' = Some x /\ In (cj n x) o).

Definition R (n : Z) (s s' : st) : Prop :=
  fe s' = fe s /\ Rca n (ca s) (ca s') (out s) /\ incl (out s') (out s).

Lemma cpart_R n mr mr' c c' o o' e : mr <= mr' -> r_atom e = n ->
  Rca n c c' o -> incl o' o ->
  Rca n (fst (cpart mr c o e)) (fst (cpart mr' c' o' e)) (snd (cpart mr c o e)) /\
  incl (snd (cpart mr' c' o' e)) (snd (cpart mr c o e)).
Proof.
  intros Hmr Hn Hc Ho. unfold cpart. rewrite Hn.
  destruct Hc as [->|(-> & x & -> & Hx)].
  - destruct c as [x|]; [|split; [left; reflexivity|exact Ho]].
    destruct (Z.geb_spec (r_t e - c_t x) mr') as [H'|H'].
    + destruct (Z.geb_spec (r_t e - c_t x) mr) as [H|H]; [|lia]. cbn [fst snd]. split.
      * left. reflexivity.
      * apply incl_app; [apply incl_appl; exact Ho|apply incl_appr, incl_refl].
    + destruct (Z.geb_spec (r_t e - c_t x) mr) as [H|H].
      * destruct (negb (c_d x =? r_d e)); cbn [fst snd].
        -- split; [left; reflexivity|apply incl_appl; exact Ho].
        -- split; [|apply incl_appl; exact Ho].
           right. split; [reflexivity|]. exists x. split; [reflexivity|].
           apply in_or_app. right. left. reflexivity.
      * destruct (negb (c_d x =? r_d e)); cbn [fst snd]; (split; [left; reflexivity|exact Ho]).
  - cbn [fst snd].
    destruct (Z.geb_spec (r_t e - c_t x) mr') as [H'|H']; cbn [fst snd].
    + split; [left; reflexivity|].
      apply incl_app; [exact Ho|]. intros j [<-|[]]. exact Hx.
    + destruct (negb (c_d x =? r_d e)); cbn [fst snd].
      * split; [left; reflexivity|exact Ho].
      * split; [|exact Ho]. right. split; [reflexivity|]. exists x. split; [reflexivity|exact Hx].
Qed.

Lemma cpart_mono mr c o e : incl o (snd (cpart mr c o e)).
Proof.
  unfold cpart. destruct c as [x|]; [|apply incl_refl].
  destruct (r_t e - c_t x >=? mr); [apply incl_appl, incl_refl|].
  destruct (negb (c_d x =? r_d e)); apply incl_refl.
Qed.

Lemma fpart_R n f c c' o o' e :
  Rca n c c' o -> incl o' o -> R n (fpart f c o e) (fpart f c' o' e).
Proof.
  intros Hc Ho. unfold fpart, R.
  destruct f as [f|]; [|cbn [fe ca out]; auto].
  destruct (r_d e =? p_s f); [cbn [fe ca out]; repeat split; [left; reflexivity|exact Ho]|].
  destruct (negb (r_di e =? -1)).
  { cbn [fe ca out]. repeat split; [left; reflexivity|].
    apply incl_app; [apply incl_appl; exact Ho|apply incl_appr, incl_refl]. }
  destruct (negb (r_d e =? p_d f)); cbn [fe ca out].
  - repeat split; [left; reflexivity|exact Ho].
  - auto.
Qed.

Lemma step_R n mr mr' s s' e : mr <= mr' -> r_atom e = n ->
  R n s s' -> R n (step mr s e) (step mr' s' e).
Proof.
  intros Hmr Hn (Hf & Hc & Ho). rewrite !step_eq, Hf.
  destruct (cpart_R n mr mr' (ca s) (ca s') (out s) (out s') e Hmr Hn Hc Ho) as [Hc1 Ho1].
  exact (fpart_R n _ _ _ _ _ e Hc1 Ho1).
Qed.

Lemma fold_R n mr mr' : mr <= mr' -> forall es s s',
  Forall (fun e => r_atom e = n) es -> R n s s' ->
  R n (fold_left (step mr) es s) (fold_left (step mr') es s').
Proof.
  intros Hmr. induction es as [|e es IH]; intros s s' Hes HR; [exact HR|].
  cbn [fold_left].
  assert (He : r_atom e = n) by (exact (Forall_inv Hes)).
  assert (Hes' : Forall (fun e => r_atom e = n) es) by (exact (Forall_inv_tail Hes)).
  apply IH; [exact Hes'|]. apply step_R; assumption.
Qed.

Lemma jump_eqb_refl j : jump_eqb j j = true.
Proof. unfold jump_eqb. rewrite !Z.eqb_refl. reflexivity. Qed.

Lemma incl_jumps_subset a b : incl a b -> jumps_subset a b = true.
Proof.
  intros H. unfold jumps_subset. apply forallb_forall. intros j Hj.
  apply existsb_exists. exists j. split; [apply H; exact Hj|apply jump_eqb_refl].
Qed.

(* General form: any event list whose rows all carry the same atom index
   (no assumption on times, on the inner history, or on the sign of mr). *)
Theorem residence_monotone_gen : forall n mr mr' es, mr <= mr' ->
  Forall (fun e => r_atom e = n) es ->
  jumps_subset (scan mr' es) (scan mr es) = true.
Proof.
  intros n mr mr' es Hmr Hes. apply incl_jumps_subset. unfold scan.
  assert (HR : R n st0 st0).
  { unfold R, st0; cbn [fe ca out]. repeat split; [left; reflexivity|apply incl_refl]. }
  destruct (fold_R n mr mr' Hmr es st0 st0 Hes HR) as (_ & _ & Ho).
  intros j Hj. apply filter_In in Hj. destruct Hj as [Hj Hp].
  apply filter_In. split; [apply Ho; exact Hj|exact Hp].
Qed.
Print Assumptions residence_monotone_gen.

Definition ev (n x y u v t : Z) : row :=
  {| r_atom := n; r_s := x; r_d := y; r_si := u; r_di := v; r_t := t |}.

Lemma events_cons2 n t x y o u v i :
  events_from n t (x :: y :: o) (u :: v :: i) =
  (if negb (x =? y) || negb (u =? v) then [ev n x y u v t] else [])
  ++ events_from n (t + 1) (y :: o) (v :: i).
Proof. reflexivity. Qed.

Lemma events_from_atom : forall o n t i, Forall (fun e => r_atom e = n) (events_from n t o i).
Proof.
  induction o as [|x o IH]; intros n t i; [constructor|].
  destruct o as [|y o]; [destruct i; constructor|].
  destruct i as [|u [|v i]]; try constructor.
  rewrite events_cons2. apply Forall_app. split; [|apply IH].
  destruct (negb (x =? y) || negb (u =? v)); constructor; [reflexivity|constructor].
Qed.

(* The statement for the event table of one atom.  (For an arbitrary event list the
   statement is false: see residence_monotone_mixed_atoms_false below.) *)
Theorem residence_monotone : forall mr mr' n o i, mr <= mr' ->
  jumps_subset (scan mr' (events_from n 0 o i)) (scan mr (events_from n 0 o i)) = true.
Proof.
  intros mr mr' n o i Hmr. apply (residence_monotone_gen n); [exact Hmr|apply events_from_atom].
Qed.
Print Assumptions residence_monotone.

(* Counterexample to the unrestricted statement (rows of different atoms in one scan;
   the emitted jump takes its atom from the row that triggers the emission). *)
Definition es_cex : list row :=
  [ {| r_atom := 0; r_s := 0;  r_d := -1; r_si := 0;  r_di := -1; r_t := 0 |};
    {| r_atom := 0; r_s := -1; r_d := 1;  r_si := -1; r_di := -1; r_t := 1 |};
    {| r_atom := 0; r_s := 1;  r_d := 1;  r_si := -1; r_di := 1;  r_t := 2 |};
    {| r_atom := 1; r_s := 1;  r_d := 1;  r_si := 1;  r_di := -1; r_t := 10 |} ].
Theorem residence_monotone_mixed_atoms_false :
  ~ (forall mr mr' es, mr <= mr' -> jumps_subset (scan mr' es) (scan mr es) = true).
Proof.
  intro H. specialize (H 1 5 es_cex ltac:(lia)). vm_compute in H. discriminate H.
Qed.
Print Assumptions residence_monotone_mixed_atoms_false.

(* ====================================================================== *)
(* T1: every reported jump carries the key of a default jump               *)
(* ====================================================================== *)
(* what the scan guarantees about a reported jump: it leaves j_from at j_start, the next
   frame with a site is e (at j_to), and the atom is still/again at j_to at j_stop >= e *)
Definition scan_ok (o : list Z) (n : Z) (j : jump) : Prop :=
  j_atom j = n /\ j_from j <> -1 /\ j_to j <> -1 /\ j_from j <> j_to j /\ 0 <= j_start j < j_stop j /\
  at_ o (j_start j) = Some (j_from j) /\ at_ o (j_stop j) = Some (j_to j) /\
  exists e, j_start j < e <= j_stop j /\ at_ o e = Some (j_to j) /\
            forall m, j_start j < m < e -> at_ o m = Some (-1).

Definition Ica (o : list Z) (n : Z) (c : option cand) : Prop :=
  match c with None => True | Some c => scan_ok o n (cj n c) end.
Definition Iout (o : list Z) (n : Z) (l : list jump) : Prop := forall j, In j l -> scan_ok o n j.
(* fromevent (A -> B, tA): A was left at tA and every frame in (tA, t] is at B *)
Definition Ife (o : list Z) (t : Z) (f : option pend) : Prop :=
  match f with
  | None => True
  | Some f => p_s f <> -1 /\ p_s f <> p_d f /\ 0 <= p_t f < t /\ at_ o (p_t f) = Some (p_s f) /\
              forall m, p_t f < m <= t -> at_ o m = Some (p_d f)
  end.
Definition Inv (o : list Z) (n t : Z) (s : st) : Prop :=
  Ife o t (fe s) /\ Ica o n (ca s) /\ Iout o n (out s).

Lemma Iout_app o n l j : Iout o n l -> scan_ok o n j -> Iout o n (l ++ [j]).
Proof.
  intros Hl Hj x Hx. apply in_app_or in Hx. destruct Hx as [Hx|[<-|[]]]; [apply Hl; exact Hx|exact Hj].
Qed.

Lemma cpart_inv o n mr c l e : r_atom e = n -> Ica o n c -> Iout o n l ->
  Ica o n (fst (cpart mr c l e)) /\ Iout o n (snd (cpart mr c l e)).
Proof.
  intros Hn Hc Hl. unfold cpart. rewrite Hn. destruct c as [x|]; [|split; [exact I|exact Hl]].
  destruct (r_t e - c_t x >=? mr); cbn [fst snd].
  - split; [exact I|]. apply Iout_app; [exact Hl|exact Hc].
  - destruct (negb (c_d x =? r_d e)); cbn [fst snd]; (split; [|exact Hl]); [exact I|exact Hc].
Qed.

Lemma Ife_stay o t a f : 0 <= t -> at_ o t = Some a -> at_ o (t + 1) = Some a ->
  Ife o t f -> Ife o (t + 1) f.
Proof.
  intros Ht Ha Ha' Hf. destruct f as [f|]; [|exact I].
  destruct Hf as (H1 & H2 & H3 & H4 & H5).
  assert (Hd : Some a = Some (p_d f)) by (rewrite <- Ha; apply H5; lia).
  repeat split; try assumption; try lia.
  intros m Hm. destruct (Z.eq_dec m (t + 1)) as [->|Hne]; [congruence|apply H5; lia].
Qed.

Ltac inv_split := unfold Inv; cbn [fe ca out]; split; [|split].

Lemma fpart_inv o n t a b u v f c l :
  0 <= t -> at_ o t = Some a -> at_ o (t + 1) = Some b -> (v = -1 \/ v = b) ->
  Ife o t f -> Ica o n c -> Iout o n l ->
  Inv o n (t + 1) (fpart (fe1_of f (ev n a b u v t)) c l (ev n a b u v t)).
Proof.
  intros Ht Ha Hb Hv Hf Hc Hl.
  unfold fe1_of, ev. cbn [r_s r_d r_t].
  destruct (Z.eqb_spec a (-1)) as [Ha1|Ha1]; cbn [negb andb];
    [|destruct (Z.eqb_spec a b) as [Hab|Hab]; cbn [negb andb]].
  3: { (* fresh fromevent (a -> b, t) *)
    unfold fpart. cbn [r_s r_d r_t r_di r_atom p_s p_d p_t].
    rewrite (eqb_neq b a (not_eq_sym Hab)).
    destruct (Z.eqb_spec v (-1)) as [Hv1|Hv1]; cbn [negb].
    - rewrite Z.eqb_refl. cbn [negb]. inv_split; [|exact Hc|exact Hl].
      cbn [p_s p_d p_t Ife]. repeat split; try assumption; try lia.
      intros m Hm. replace m with (t + 1) by lia. exact Hb.
    - inv_split; [exact I|exact I|].
      apply Iout_app; [exact Hl|]. assert (Hvb : v = b) by (destruct Hv; [contradiction|assumption]).
      unfold scan_ok. cbn [j_atom j_from j_to j_start j_stop].
      repeat split; try assumption; try lia; try congruence.
      exists (t + 1). repeat split; try assumption; try lia. }
  - (* a = -1: the old fromevent, if any, is (A -> -1, tA) *)
    subst a. destruct f as [f|]; [|unfold fpart; inv_split; [exact I|exact Hc|exact Hl]].
    destruct Hf as (H1 & H2 & H3 & H4 & H5).
    assert (Hd : Some (-1) = Some (p_d f)) by (rewrite <- Ha; apply H5; lia).
    assert (Hd' : p_d f = -1) by congruence.
    unfold fpart. cbn [r_s r_d r_t r_di r_atom].
    destruct (Z.eqb_spec b (p_s f)) as [HbA|HbA].
    { inv_split; [exact I|exact I|exact Hl]. }
    assert (Hjump : b <> -1 -> scan_ok o n {| j_atom := n; j_from := p_s f; j_to := b; j_start := p_t f; j_stop := t + 1 |}).
    { intros Hb1. unfold scan_ok. cbn [j_atom j_from j_to j_start j_stop].
      repeat split; try assumption; try lia; try congruence.
      exists (t + 1). repeat split; try assumption; try lia.
      intros m Hm. rewrite <- Hd'. apply H5. lia. }
    destruct (Z.eqb_spec v (-1)) as [Hv1|Hv1]; cbn [negb].
    + destruct (Z.eqb_spec b (p_d f)) as [HbB|HbB]; cbn [negb].
      * inv_split; [|exact Hc|exact Hl].
        cbn [Ife]. repeat split; try assumption; try lia.
        intros m Hm. destruct (Z.eq_dec m (t + 1)) as [->|Hne]; [congruence|apply H5; lia].
      * inv_split; [exact I| |exact Hl].
        apply Hjump. congruence.
    + inv_split; [exact I|exact I|].
      apply Iout_app; [exact Hl|]. apply Hjump. destruct Hv; congruence.
  - (* a = b <> -1: inner-only event; the old fromevent, if any, is (A -> a, tA) *)
    subst b. destruct f as [f|]; [|unfold fpart; inv_split; [exact I|exact Hc|exact Hl]].
    destruct Hf as (H1 & H2 & H3 & H4 & H5).
    assert (Hd : Some a = Some (p_d f)) by (rewrite <- Ha; apply H5; lia).
    assert (Hd' : p_d f = a) by congruence.
    unfold fpart. cbn [r_s r_d r_t r_di r_atom].
    destruct (Z.eqb_spec a (p_s f)) as [HbA|HbA].
    { inv_split; [exact I|exact I|exact Hl]. }
    destruct (Z.eqb_spec v (-1)) as [Hv1|Hv1]; cbn [negb].
    + rewrite <- Hd', Z.eqb_refl. cbn [negb].
      inv_split; [|exact Hc|exact Hl].
      cbn [Ife]. repeat split; try assumption; try lia.
      intros m Hm. destruct (Z.eq_dec m (t + 1)) as [->|Hne]; [congruence|apply H5; lia].
    + inv_split; [exact I|exact I|].
      apply Iout_app; [exact Hl|].
      unfold scan_ok. cbn [j_atom j_from j_to j_start j_stop].
      repeat split; try assumption; try lia; try congruence.
      exists (p_t f + 1). repeat split; try lia.
      rewrite <- Hd'. apply H5. lia.
Qed.

Lemma step_inv o n mr t a b u v s :
  0 <= t -> at_ o t = Some a -> at_ o (t + 1) = Some b -> (v = -1 \/ v = b) ->
  Inv o n t s -> Inv o n (t + 1) (step mr s (ev n a b u v t)).
Proof.
  intros Ht Ha Hb Hv (Hf & Hc & Hl). rewrite step_eq.
  destruct (cpart_inv o n mr (ca s) (out s) (ev n a b u v t) eq_refl Hc Hl) as [Hc1 Hl1].
  apply fpart_inv; assumption.
Qed.

Lemma scan_inv : forall l o n mr a u il t s,
  sfx o t (a :: l) -> inner_ok (a :: l) (u :: il) = true -> Inv o n t s ->
  Iout o n (out (fold_left (step mr) (events_from n t (a :: l) (u :: il)) s)).
Proof.
  induction l as [|b l IH]; intros o n mr a u il t s Hs Hi HI.
  - destruct il; cbn [events_from fold_left]; apply HI.
  - destruct il as [|v il]; [cbn in Hi; rewrite andb_false_r in Hi; discriminate|].
    assert (Ht : 0 <= t) by (destruct Hs; assumption).
    apply sfx_cons in Hs. destruct Hs as [Ha Hs].
    assert (Hb : at_ o (t + 1) = Some b) by (apply sfx_cons in Hs; apply Hs).
    cbn [inner_ok] in Hi. apply andb_true_iff in Hi. destruct Hi as [_ Hi].
    assert (Hv : v = -1 \/ v = b).
    { cbn [inner_ok] in Hi. apply andb_true_iff in Hi. destruct Hi as [Hi _]. lia. }
    rewrite events_cons2, fold_left_app.
    apply (IH o n mr b v il (t + 1)); [exact Hs|exact Hi|].
    destruct (negb (a =? b) || negb (u =? v)) eqn:Hev; cbn [fold_left].
    + apply step_inv; assumption.
    + assert (a = b) by lia. subst b. destruct HI as (Hf & Hc & Hl).
      split; [|split; assumption]. apply (Ife_stay o t a); assumption.
Qed.

(* every jump the scan reports, stated against the whole history *)
Theorem scan_sound : forall mr n o i j, inner_ok o i = true ->
  In j (scan mr (events_from n 0 o i)) ->
  j_atom j = n /\ j_from j <> -1 /\ j_to j <> -1 /\ j_from j <> j_to j /\ 0 <= j_start j < j_stop j /\
  nth_error o (Z.to_nat (j_start j)) = Some (j_from j) /\
  nth_error o (Z.to_nat (j_stop j)) = Some (j_to j) /\
  exists e, j_start j < e <= j_stop j /\ nth_error o (Z.to_nat e) = Some (j_to j) /\
            forall m, j_start j < m < e -> nth_error o (Z.to_nat m) = Some (-1).
Proof.
  intros mr n o i j Hi Hj. unfold scan in Hj. apply filter_In in Hj. destruct Hj as [Hj _].
  destruct o as [|a l]; [contradiction|].
  destruct i as [|u il]; [discriminate|].
  apply (scan_inv l (a :: l) n mr a u il 0 st0 (sfx_0 _) Hi); [|exact Hj].
  unfold st0. inv_split; [exact I|exact I|]. intros x [].
Qed.
Print Assumptions scan_sound.

Theorem scan_consistent : forall mr n o i j, inner_ok o i = true ->
  In j (scan mr (events_from n 0 o i)) ->
  nth_error o (Z.to_nat (j_start j)) = Some (j_from j) /\
  nth_error o (Z.to_nat (j_stop j)) = Some (j_to j) /\ 0 <= j_start j < j_stop j.
Proof.
  intros mr n o i j Hi Hj.
  destruct (scan_sound mr n o i j Hi Hj) as (_ & _ & _ & _ & H5 & H6 & H7 & _). auto.
Qed.
Print Assumptions scan_consistent.

Theorem strict_subset : forall mr n o i, inner_ok o i = true ->
  keys_subset (scan mr (events_from n 0 o i)) (default_jumps n o) = true.
Proof.
  intros mr n o i Hi. unfold keys_subset. apply forallb_forall. intros j Hj.
  destruct (scan_sound mr n o i j Hi Hj) as (H1 & H2 & H3 & H4 & H5 & H6 & H7 & e & He & Hoe & Hbet).
  unfold key_in. apply existsb_exists.
  exists {| j_atom := n; j_from := j_from j; j_to := j_to j; j_start := j_start j; j_stop := e |}.
  split.
  - apply default_complete; try assumption. lia.
  - unfold key_eqb. cbn [j_atom j_from j_to j_start]. rewrite H1, !Z.eqb_refl. reflexivity.
Qed.
Print Assumptions strict_subset.
