(* C13 -- drift correction: proofs about Model/C13.v.
   Well-formedness: every displacement column has the same length T and the mask has one
   entry per atom.
   (1) mean_corrected_zero: the corrected displacements of the reference atoms sum to zero,
   (2) first_frame_unchanged: a zero first frame stays zero; displacements has head 0,
   (3) idempotent: correcting twice = correcting once (up to the scale n),
   (4) rigid_translation_invariant: a common per-frame shift of all atoms is removed,
   (5) floating_equiv_fixed: floating species = complement of the fixed species,
   (6) corrected_n_nth: pointwise meaning of corrected_n,
   (7) zero_drift_unchanged: zero drift leaves the displacements unchanged (up to n). *)
From GV Require Import Base.Prelude Model.C01 Model.C13.

(* ---------- zip_with ---------- *)
Lemma zip_with_length {A B C} (f : A -> B -> C) : forall a b,
  length (zip_with f a b) = Nat.min (length a) (length b).
Proof.
  induction a as [|x a IH]; intros [|y b]; cbn [zip_with length Nat.min]; try reflexivity.
  rewrite IH. reflexivity.
Qed.

Lemma zip_with_nth {A B C} (f : A -> B -> C) da db dc : forall a b t,
  (t < length a)%nat -> (t < length b)%nat ->
  nth t (zip_with f a b) dc = f (nth t a da) (nth t b db).
Proof.
  induction a as [|x a IH]; intros [|y b] t Ha Hb; cbn [length] in *; try lia.
  destruct t as [|t]; cbn [zip_with nth]; [reflexivity|]. apply IH; lia.
Qed.

Lemma zip_with_nil_r {A B C} (f : A -> B -> C) a : zip_with f a [] = [].
Proof. destruct a; reflexivity. Qed.

(* ---------- selected / nsel ---------- *)
Lemma selected_map {A B} (f : A -> B) : forall mask l,
  selected mask (map f l) = map f (selected mask l).
Proof.
  unfold selected.
  induction mask as [|b mask IH]; intros [|x l]; cbn [map combine filter]; try reflexivity.
  destruct b; cbn [fst snd map]; rewrite IH; reflexivity.
Qed.

Lemma selected_length {A} : forall mask (l : list A), length mask = length l ->
  Z.of_nat (length (selected mask l)) = nsel mask.
Proof.
  unfold selected, nsel.
  induction mask as [|b mask IH]; intros [|x l] H; cbn [length] in H; try discriminate; [reflexivity|].
  cbn [combine filter fst]. injection H as H. specialize (IH l H).
  destruct b; cbn [map length]; lia.
Qed.

Lemma selected_In {A} : forall mask (l : list A) x, In x (selected mask l) -> In x l.
Proof.
  unfold selected.
  induction mask as [|b mask IH]; intros [|y l] x H; cbn [combine filter map] in H; try contradiction.
  cbn [fst] in H. destruct b.
  - destruct H as [H|H]; [left; exact H|right; apply IH; exact H].
  - right. apply IH. exact H.
Qed.

Lemma selected_Forall {A} (P : A -> Prop) mask l : Forall P l -> Forall P (selected mask l).
Proof.
  intro H. apply Forall_forall. intros x Hx. apply selected_In in Hx.
  rewrite Forall_forall in H. apply H. exact Hx.
Qed.

Lemma nsel_nonneg mask : 0 <= nsel mask.
Proof. unfold nsel. lia. Qed.

Lemma selected_nil_iff {A} mask (l : list A) : length mask = length l ->
  (selected mask l = [] <-> nsel mask = 0).
Proof.
  intro H. rewrite <- (selected_length mask l H). destruct (selected mask l); cbn [length]; split; intro; try reflexivity; try discriminate; lia.
Qed.

(* ---------- vsum ---------- *)
Lemma vsum_cons c r : r <> [] -> vsum (c :: r) = zip_with Z.add c (vsum r).
Proof. destruct r; [congruence|reflexivity]. Qed.

Lemma vsum_length T : forall cols, Forall (fun c => length c = T) cols -> cols <> [] ->
  length (vsum cols) = T.
Proof.
  induction cols as [|c r IH]; intros HF Hne; [congruence|].
  inversion HF as [|? ? Hc Hr]; subst.
  destruct r as [|c' r]; [reflexivity|].
  rewrite vsum_cons by discriminate. rewrite zip_with_length, IH by (assumption || discriminate).
  apply Nat.min_id.
Qed.

Lemma vsum_nth T : forall cols t, Forall (fun c => length c = T) cols -> cols <> [] ->
  (t < T)%nat ->
  nth t (vsum cols) 0 = zsum (map (fun c => nth t c 0) cols).
Proof.
  induction cols as [|c r IH]; intros t HF Hne Ht; [congruence|].
  inversion HF as [|? ? Hc Hr]; subst.
  destruct r as [|c' r]; [cbn [vsum map zsum]; lia|].
  rewrite vsum_cons by discriminate.
  rewrite (zip_with_nth Z.add 0 0 0).
  - rewrite IH by (assumption || discriminate). reflexivity.
  - exact Ht.
  - rewrite (vsum_length (length c)) by (assumption || discriminate). exact Ht.
Qed.

Lemma zsum_affine (f : list Z -> Z) n s : forall l,
  zsum (map (fun c => n * f c - s) l) = n * zsum (map f l) - Z.of_nat (length l) * s.
Proof.
  induction l as [|c l IH]; [cbn [map zsum length]; lia|].
  cbn [map zsum]. rewrite IH. cbn [length]. lia.
Qed.

Lemma zsum_shift (f : list Z -> Z) s : forall l,
  zsum (map (fun c => f c + s) l) = zsum (map f l) + Z.of_nat (length l) * s.
Proof.
  induction l as [|c l IH]; [cbn [map zsum length]; lia|].
  cbn [map zsum]. rewrite IH. cbn [length]. lia.
Qed.

(* ---------- corrected_n ---------- *)
(* (6) pointwise meaning of the scaled correction: n * d[t] - (n * drift)[t] *)
Lemma corrected_n_nth n dn d t : (t < length d)%nat -> (t < length dn)%nat ->
  nth t (corrected_n n dn d) 0 = n * nth t d 0 - nth t dn 0.
Proof.
  intros Hd Hn. unfold corrected_n.
  apply (zip_with_nth (fun x s => n * x - s) 0 0 0); assumption.
Qed.

Lemma corrected_n_length n dn d : length (corrected_n n dn d) = Nat.min (length d) (length dn).
Proof. unfold corrected_n. apply zip_with_length. Qed.

Lemma corrected_n_nil n d : corrected_n n [] d = [].
Proof. unfold corrected_n. apply zip_with_nil_r. Qed.

Lemma corrected_n_zero n : forall d T, length d = T ->
  corrected_n n (repeat 0 T) d = map (fun x => n * x) d.
Proof.
  unfold corrected_n.
  induction d as [|x d IH]; intros T H; subst T; [reflexivity|].
  cbn [length repeat zip_with map]. rewrite IH by reflexivity. f_equal. lia.
Qed.

Section WF.
  Variable T : nat.
  Variable mask : list bool.
  Variable disp : list (list Z).
  Hypothesis Hlen : Forall (fun c => length c = T) disp.
  Hypothesis Hmask : length mask = length disp.

  Lemma drift_n_length : 0 < nsel mask -> length (drift_n mask disp) = T.
  Proof.
    intro Hn. unfold drift_n. apply vsum_length.
    - apply selected_Forall. exact Hlen.
    - intro E. apply (selected_nil_iff mask disp Hmask) in E. lia.
  Qed.

  Lemma drift_n_nil : nsel mask = 0 -> drift_n mask disp = [].
  Proof.
    intro Hn. unfold drift_n. apply (selected_nil_iff mask disp Hmask) in Hn. rewrite Hn. reflexivity.
  Qed.

  Lemma drift_n_nth t : 0 < nsel mask -> (t < T)%nat ->
    nth t (drift_n mask disp) 0 = zsum (map (fun c => nth t c 0) (selected mask disp)).
  Proof.
    intros Hn Ht. unfold drift_n. apply (vsum_nth T).
    - apply selected_Forall. exact Hlen.
    - intro E. apply (selected_nil_iff mask disp Hmask) in E. lia.
    - exact Ht.
  Qed.

  Lemma correct_all_lengths : 0 < nsel mask ->
    Forall (fun c => length c = T) (correct_all mask disp).
  Proof.
    intro Hn. unfold correct_all. apply Forall_forall. intros c Hc.
    apply in_map_iff in Hc. destruct Hc as [d [<- Hd]].
    rewrite corrected_n_length, drift_n_length by exact Hn.
    rewrite Forall_forall in Hlen. rewrite (Hlen d Hd). apply Nat.min_id.
  Qed.

  Lemma correct_all_length : length (correct_all mask disp) = length disp.
  Proof. unfold correct_all. apply map_length. Qed.

  Lemma correct_all_nsel0 : nsel mask = 0 -> correct_all mask disp = map (fun _ => []) disp.
  Proof.
    intro Hn. unfold correct_all. rewrite drift_n_nil by exact Hn.
    apply map_ext. intro d. apply corrected_n_nil.
  Qed.

  (* (1) the corrected displacements of the reference atoms sum to zero in every frame *)
  Theorem mean_corrected_zero : 0 < nsel mask ->
    vsum (selected mask (correct_all mask disp)) = repeat 0 T.
  Proof.
    intro Hn.
    assert (HF : Forall (fun c => length c = T) (selected mask (correct_all mask disp))).
    { apply selected_Forall. apply correct_all_lengths. exact Hn. }
    assert (Hne : selected mask (correct_all mask disp) <> []).
    { intro E. apply selected_nil_iff in E; [lia|]. rewrite correct_all_length. exact Hmask. }
    apply (nth_ext _ _ 0 0).
    - rewrite (vsum_length T) by assumption. rewrite repeat_length. reflexivity.
    - intros t Ht. rewrite (vsum_length T) in Ht by assumption.
      rewrite (vsum_nth T) by assumption.
      rewrite nth_repeat.
      unfold correct_all. rewrite selected_map, map_map.
      rewrite (map_ext_in _ (fun c => nsel mask * (fun c => nth t c 0) c - nth t (drift_n mask disp) 0)).
      + rewrite zsum_affine. rewrite selected_length by exact Hmask.
        rewrite drift_n_nth by assumption. lia.
      + intros d Hd. apply corrected_n_nth.
        * apply selected_In in Hd. rewrite Forall_forall in Hlen. rewrite (Hlen d Hd). exact Ht.
        * rewrite drift_n_length by exact Hn. exact Ht.
  Qed.

  (* (1') no reference atom: the sum over the empty selection is the empty list *)
  Theorem mean_corrected_zero_none : nsel mask = 0 ->
    vsum (selected mask (correct_all mask disp)) = [].
  Proof.
    intro Hn.
    assert (E : selected mask (correct_all mask disp) = []).
    { apply selected_nil_iff; [|exact Hn]. rewrite correct_all_length. exact Hmask. }
    rewrite E. reflexivity.
  Qed.

  Corollary drift_of_corrected_zero : 0 < nsel mask ->
    drift_n mask (correct_all mask disp) = repeat 0 T.
  Proof. apply mean_corrected_zero. Qed.

  (* (7) zero drift: the correction is the identity (up to the scale n) *)
  Theorem zero_drift_unchanged : drift_n mask disp = repeat 0 T ->
    correct_all mask disp = map (map (fun x => nsel mask * x)) disp.
  Proof.
    intro Hz. unfold correct_all. rewrite Hz. apply map_ext_in. intros d Hd.
    apply corrected_n_zero. rewrite Forall_forall in Hlen. apply Hlen. exact Hd.
  Qed.

  (* (4) adding the same per-frame amount to every atom does not change the corrected motion *)
  Theorem rigid_translation_invariant rho : length rho = T ->
    correct_all mask (map (fun d => zip_with Z.add d rho) disp) = correct_all mask disp.
  Proof.
    intro Hrho.
    set (sh := fun d : list Z => zip_with Z.add d rho).
    assert (Hlen' : Forall (fun c => length c = T) (map sh disp)).
    { apply Forall_forall. intros c Hc. apply in_map_iff in Hc. destruct Hc as [d [<- Hd]].
      unfold sh. rewrite zip_with_length. rewrite Forall_forall in Hlen.
      rewrite (Hlen d Hd), Hrho. apply Nat.min_id. }
    assert (Hmask' : length mask = length (map sh disp)) by (rewrite map_length; exact Hmask).
    destruct (Z.eq_dec (nsel mask) 0) as [H0|Hn0].
    - unfold correct_all.
      assert (E1 : drift_n mask (map sh disp) = []).
      { unfold drift_n. apply (selected_nil_iff mask _ Hmask') in H0. rewrite H0. reflexivity. }
      rewrite E1, drift_n_nil by exact H0. rewrite map_map.
      apply map_ext. intro d. rewrite !corrected_n_nil. reflexivity.
    - assert (Hn : 0 < nsel mask) by (pose proof (nsel_nonneg mask); lia).
      assert (HdT : length (drift_n mask (map sh disp)) = T).
      { unfold drift_n. apply vsum_length.
        - apply selected_Forall. exact Hlen'.
        - intro E. apply (selected_nil_iff mask _ Hmask') in E. lia. }
      unfold correct_all. rewrite map_map. apply map_ext_in. intros d Hd.
      assert (Hd' : length d = T) by (rewrite Forall_forall in Hlen; apply Hlen; exact Hd).
      assert (Hsh : length (sh d) = T).
      { unfold sh. rewrite zip_with_length, Hd', Hrho. apply Nat.min_id. }
      apply (nth_ext _ _ 0 0).
      + rewrite !corrected_n_length, HdT, drift_n_length, Hsh, Hd' by exact Hn. reflexivity.
      + intros t Ht. rewrite corrected_n_length, HdT, Hsh, Nat.min_id in Ht.
        rewrite !corrected_n_nth by (rewrite ?HdT, ?Hsh, ?Hd', ?drift_n_length by exact Hn; exact Ht).
        rewrite drift_n_nth by assumption.
        unfold drift_n at 1. rewrite (vsum_nth T).
        * rewrite selected_map, map_map.
          rewrite (map_ext_in _ (fun c => (fun c => nth t c 0) c + nth t rho 0)).
          -- rewrite zsum_shift. rewrite selected_length by exact Hmask.
             unfold sh. rewrite (zip_with_nth Z.add 0 0 0) by (rewrite ?Hd', ?Hrho; exact Ht). lia.
          -- intros c Hc. unfold sh. apply (zip_with_nth Z.add 0 0 0).
             ++ apply selected_In in Hc. rewrite Forall_forall in Hlen. rewrite (Hlen c Hc). exact Ht.
             ++ rewrite Hrho. exact Ht.
        * apply selected_Forall. exact Hlen'.
        * intro E. apply (selected_nil_iff mask _ Hmask') in E. lia.
        * exact Ht.
  Qed.
End WF.

(* (3) correcting again changes nothing, up to the scale factor n *)
Theorem idempotent T mask disp :
  Forall (fun c => length c = T) disp -> length mask = length disp ->
  let c := correct_all mask disp in
  correct_all mask c = map (map (fun x => nsel mask * x)) c.
Proof.
  intros Hlen Hmask c. subst c.
  destruct (Z.eq_dec (nsel mask) 0) as [H0|Hn0].
  - assert (HF : Forall (fun c => length c = 0%nat) (correct_all mask disp)).
    { rewrite (correct_all_nsel0 mask disp Hmask H0). apply Forall_forall.
      intros c Hc. apply in_map_iff in Hc. destruct Hc as [d [<- _]]. reflexivity. }
    rewrite (correct_all_nsel0 mask (correct_all mask disp)) by
      (rewrite ?correct_all_length; assumption).
    apply map_ext_in. intros c Hc. rewrite Forall_forall in HF. specialize (HF c Hc).
    destruct c; [reflexivity|discriminate].
  - assert (Hn : 0 < nsel mask) by (pose proof (nsel_nonneg mask); lia).
    apply (zero_drift_unchanged T).
    + apply correct_all_lengths; assumption.
    + apply drift_of_corrected_zero; assumption.
Qed.

(* ---------- (2) the first frame ---------- *)
Lemma hd_zip_with_zero (f : Z -> Z -> Z) a b : f 0 0 = 0 -> hd 0 a = 0 -> hd 0 b = 0 ->
  hd 0 (zip_with f a b) = 0.
Proof.
  intros Hf Ha Hb. destruct a as [|x a], b as [|y b]; cbn [zip_with hd] in *; try reflexivity.
  subst. exact Hf.
Qed.

Lemma vsum_hd_zero : forall cols, (forall c, In c cols -> hd 0 c = 0) -> hd 0 (vsum cols) = 0.
Proof.
  induction cols as [|c r IH]; intros H; [reflexivity|].
  destruct r as [|c' r]; [apply H; left; reflexivity|].
  rewrite vsum_cons by discriminate. apply hd_zip_with_zero.
  - lia.
  - apply H. left. reflexivity.
  - apply IH. intros d Hd. apply H. right. exact Hd.
Qed.

Theorem first_frame_unchanged mask disp :
  (forall d, In d disp -> hd 0 d = 0) ->
  forall c, In c (correct_all mask disp) -> hd 0 c = 0.
Proof.
  intros H c Hc. unfold correct_all in Hc. apply in_map_iff in Hc. destruct Hc as [d [<- Hd]].
  unfold corrected_n. apply hd_zip_with_zero.
  - lia.
  - apply H. exact Hd.
  - unfold drift_n. apply vsum_hd_zero. intros e He. apply H. apply selected_In in He. exact He.
Qed.

Theorem displacements_hd D cs : hd 0 (displacements D cs) = 0.
Proof. destruct cs; reflexivity. Qed.

Theorem displacements_first D cs : cs <> [] -> exists r, displacements D cs = 0 :: r.
Proof. destruct cs as [|c0 r]; [congruence|]. intros _. eexists. reflexivity. Qed.

Corollary pipeline_first_frame D mask atoms :
  forall c, In c (correct_all mask (map (disp_of D) atoms)) -> hd 0 c = 0.
Proof.
  apply first_frame_unchanged. intros d Hd. apply in_map_iff in Hd. destruct Hd as [cs [<- _]].
  apply displacements_hd.
Qed.

(* ---------- (5) species selection ---------- *)
Lemma mem_In x l : mem x l = true <-> In x l.
Proof.
  unfold mem. rewrite existsb_exists. split.
  - intros [y [Hy E]]. apply Z.eqb_eq in E. subst. exact Hy.
  - intro H. exists x. split; [exact H|apply Z.eqb_refl].
Qed.

Theorem floating_equiv_fixed floating syms all : (forall s, In s syms -> In s all) ->
  sel_floating floating syms = sel_fixed (filter (fun s => negb (mem s floating)) all) syms.
Proof.
  intro H. unfold sel_floating, sel_fixed. apply map_ext_in. intros s Hs.
  apply eq_true_iff_eq. rewrite mem_In, filter_In. split.
  - intro Hn. split; [apply H; exact Hs|exact Hn].
  - intros [_ Hn]. exact Hn.
Qed.

Print Assumptions mean_corrected_zero.
Print Assumptions mean_corrected_zero_none.
Print Assumptions drift_of_corrected_zero.
Print Assumptions zero_drift_unchanged.
Print Assumptions rigid_translation_invariant.
Print Assumptions idempotent.
Print Assumptions first_frame_unchanged.
Print Assumptions displacements_hd.
Print Assumptions displacements_first.
Print Assumptions pipeline_first_frame.
Print Assumptions floating_equiv_fixed.
Print Assumptions corrected_n_nth.

(* concrete instances (vm_compute), including the degenerate no-reference-atom case *)
Example ex_mean_zero :
  vsum (selected [true;false;true] (correct_all [true;false;true] [[0;1;2];[0;5;5];[0;3;-4]])) = [0;0;0].
Proof. vm_compute. reflexivity. Qed.
Example ex_rigid_nsel0 :
  correct_all [false;false] (map (fun d => zip_with Z.add d [7;8;9]) [[0;1;2];[0;5;5]])
  = correct_all [false;false] [[0;1;2];[0;5;5]].
Proof. vm_compute. reflexivity. Qed.
Example ex_rigid :
  correct_all [true;false;true] (map (fun d => zip_with Z.add d [7;8;9]) [[0;1;2];[0;5;5];[0;3;-4]])
  = [[0; -2; 6]; [0; 6; 12]; [0; 2; -6]].
Proof. vm_compute. reflexivity. Qed.

(* the correction subtracts the same vector from every atom: the motion of any two atoms relative to each other is what it was *)
Theorem relative_motion_preserved n dn d1 d2 t :
  (t < length d1)%nat -> (t < length d2)%nat -> (t < length dn)%nat ->
  nth t (corrected_n n dn d1) 0 - nth t (corrected_n n dn d2) 0 = n * (nth t d1 0 - nth t d2 0).
Proof. intros H1 H2 Hn. rewrite !corrected_n_nth by assumption. ring. Qed.
Print Assumptions relative_motion_preserved.
