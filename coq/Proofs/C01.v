(* C01 -- theorems about the exact periodic positions / displacements model (Model/C01.v).
   Coordinates are integer numerators over a common denominator D > 0.
   A1  positions_range, A2 positions_congr: wrapped coordinate in [0, D), congruent mod D
   A3  mi_range, mi_congr: minimum-image step in [-D/2, D/2], congruent mod D
   A4  mi_unique (no tie), tie_both_valid (at a tie both +-D/2 are minimum images)
   A5  disp_min_image: every displacement is a minimum image
   A6  recon: first frame + running sum of displacements reproduces every frame modulo D
   A7  shift_invariant, cumdisp_shift_invariant: whole-cell translations of the frames
       do not change the displacements (when no step is an exact half cell)
   A8  nint_shift, mi_congruent_inputs (+ refutation at ties for odd translations)
   A9  displacements_of_positions, A10 positions_idempotent, A11 cumsum_diffs *)
From GV Require Import Base.Prelude Model.C01.

(* ====================================================================== *)
(* sanity checks of the statements on concrete numbers (D = 8)             *)
(* ====================================================================== *)

Definition cs_test : list Z := [3; 9; -6; 21; 20; -13; 2].
Definition ns_test : list Z := [1; -2; 0; 5; -1; 3; 2].

Example test_wrap_range :
  forallb (fun x => (0 <=? wrapD 8 x) && (wrapD 8 x <? 8)) (zrange (-40) 80) = true.
Proof. vm_compute. reflexivity. Qed.
Example test_mi_range :
  forallb (fun d => (- 8 <=? 2 * mi 8 d) && (2 * mi 8 d <=? 8) && ((mi 8 d - d) mod 8 =? 0))
          (zrange (-40) 80) = true.
Proof. vm_compute. reflexivity. Qed.
Example test_no_tie : no_tie 8 cs_test = true.
Proof. vm_compute. reflexivity. Qed.
Example test_recon : positions 8 cs_test = repositions 8 3 (displacements 8 cs_test).
Proof. vm_compute. reflexivity. Qed.
(* recon also at ties: steps of 4 = 8/2 *)
Example test_recon_tie : positions 8 [3; 7; 11; -1; 3] = repositions 8 3 (displacements 8 [3; 7; 11; -1; 3]).
Proof. vm_compute. reflexivity. Qed.
Example test_shift :
  displacements 8 (zip_with (fun c n => c + 8 * n) cs_test ns_test) = displacements 8 cs_test.
Proof. vm_compute. reflexivity. Qed.
Example test_disp_pos : displacements 8 (positions 8 cs_test) = displacements 8 cs_test.
Proof. vm_compute. reflexivity. Qed.
Example test_telescope : map (fun c => 3 + c) (cumsum 0 (diffs 3 [9; -6; 21])) = [9; -6; 21].
Proof. vm_compute. reflexivity. Qed.
(* nint (d + k D) = nint d + k when there is no tie, for every k *)
Example test_nint_shift_no_tie :
  forallb (fun d => tie 8 d || forallb (fun k => nint 8 (d + k * 8) =? nint 8 d + k) (zrange (-5) 11))
          (zrange (-40) 80) = true.
Proof. vm_compute. reflexivity. Qed.
(* at a tie it fails for odd k: round-half-to-even breaks translation invariance *)
Example test_nint_shift_tie_fails : (nint 8 (4 + 1 * 8), nint 8 4 + 1) = (2, 1).
Proof. vm_compute. reflexivity. Qed.
Example test_mi_shift_tie_fails : (mi 8 (4 + 1 * 8), mi 8 4) = (-4, 4).
Proof. vm_compute. reflexivity. Qed.

(* ====================================================================== *)
(* arithmetic helpers                                                      *)
(* ====================================================================== *)

Lemma small_multiple D j : 0 < D -> - D < j * D < D -> j = 0.
Proof. intros HD H. nia. Qed.

Lemma wrapD_add_mul D x k : wrapD D (x + k * D) = wrapD D x.
Proof. unfold wrapD. apply Z_mod_plus_full. Qed.

Lemma div_add_mul D d k : 0 < D -> (d + k * D) / D = d / D + k.
Proof. intro HD. apply Z_div_plus_full. lia. Qed.

Lemma mod_add_mul D d k : (d + k * D) mod D = d mod D.
Proof. apply Z_mod_plus_full. Qed.

Lemma tie_shift D d k : tie D (d + k * D) = tie D d.
Proof. unfold tie. rewrite mod_add_mul. reflexivity. Qed.

(* ====================================================================== *)
(* A1, A2                                                                  *)
(* ====================================================================== *)

Theorem positions_range D x : 0 < D -> 0 <= wrapD D x < D.
Proof. intro HD. unfold wrapD. apply Z.mod_pos_bound. exact HD. Qed.
Print Assumptions positions_range.

Theorem positions_congr D x : 0 < D -> exists k, wrapD D x = x + k * D.
Proof.
  intro HD. exists (- (x / D)). unfold wrapD.
  pose proof (Z.div_mod x D ltac:(lia)) as H. rewrite Z.mul_opp_l. rewrite (Z.mul_comm (x / D) D). lia.
Qed.
Print Assumptions positions_congr.

(* ====================================================================== *)
(* A3                                                                      *)
(* ====================================================================== *)

(* the three branches of nint, in terms of q = d / D and r = d mod D *)
Lemma nint_cases D d : 0 < D ->
  let q := d / D in let r := d mod D in
  d = D * q + r /\ 0 <= r < D /\
  ((2 * r < D /\ nint D d = q) \/ (D < 2 * r /\ nint D d = q + 1) \/
   (2 * r = D /\ (nint D d = q \/ nint D d = q + 1))).
Proof.
  intros HD q r.
  pose proof (Z.div_mod d D ltac:(lia)) as Hdm. pose proof (Z.mod_pos_bound d D HD) as Hr.
  fold q in Hdm. fold r in Hdm, Hr.
  split; [exact Hdm|]. split; [exact Hr|].
  unfold nint. fold q. fold r.
  destruct (Z.ltb_spec (2 * r) D) as [H1|H1]; [left; split; [exact H1|reflexivity]|].
  destruct (Z.ltb_spec D (2 * r)) as [H2|H2]; [right; left; split; [exact H2|reflexivity]|].
  right; right. split; [lia|]. destruct (Z.even q); [left|right]; reflexivity.
Qed.

Theorem mi_range D d : 0 < D -> - D <= 2 * mi D d <= D.
Proof.
  intro HD. destruct (nint_cases D d HD) as (Hd & Hr & Hc). unfold mi.
  set (q := d / D) in *. set (r := d mod D) in *.
  destruct Hc as [[H ->]|[[H ->]|[H [-> | ->]]]]; lia.
Qed.
Print Assumptions mi_range.

Theorem mi_congr D d : exists k, mi D d = d + k * D.
Proof. exists (- nint D d). unfold mi. lia. Qed.
Print Assumptions mi_congr.

(* without a tie the bound is strict *)
Lemma mi_range_strict D d : 0 < D -> tie D d = false -> - D < 2 * mi D d < D.
Proof.
  intros HD Ht. destruct (nint_cases D d HD) as (Hd & Hr & Hc). unfold mi.
  unfold tie in Ht. apply Z.eqb_neq in Ht.
  set (q := d / D) in *. set (r := d mod D) in *.
  destruct Hc as [[H ->]|[[H ->]|[H _]]]; lia.
Qed.

(* ====================================================================== *)
(* A4                                                                      *)
(* ====================================================================== *)

Theorem mi_unique D d : 0 < D -> tie D d = false ->
  forall m, (exists k, m = d + k * D) -> - D <= 2 * m <= D -> m = mi D d.
Proof.
  intros HD Ht m [k Hk] Hm.
  pose proof (mi_range_strict D d HD Ht) as Hs.
  assert (Hj : k + nint D d = 0).
  { apply (small_multiple D); [exact HD|]. unfold mi in Hs.
    replace ((k + nint D d) * D) with (k * D + D * nint D d) by ring.
    (* 2 * (m - mi) = 2 * (k + n) * D is strictly between -2D and 2D *)
    lia. }
  unfold mi. replace (nint D d) with (- k) by lia. rewrite Hk. ring.
Qed.
Print Assumptions mi_unique.

Theorem tie_both_valid D d : 0 < D -> tie D d = true -> (2 * mi D d = D \/ 2 * mi D d = - D).
Proof.
  intros HD Ht. destruct (nint_cases D d HD) as (Hd & Hr & Hc). unfold mi.
  unfold tie in Ht. apply Z.eqb_eq in Ht.
  set (q := d / D) in *. set (r := d mod D) in *.
  destruct Hc as [[H _]|[[H _]|[H [-> | ->]]]]; lia.
Qed.
Print Assumptions tie_both_valid.

(* at a tie, both candidates d - D q and d - D (q + 1) satisfy the minimum-image bound and
   are congruent to d: the minimum image is not unique *)
Theorem tie_two_images D d : 0 < D -> tie D d = true ->
  exists m1 m2, m1 <> m2 /\ (exists k, m1 = d + k * D) /\ (exists k, m2 = d + k * D) /\
                - D <= 2 * m1 <= D /\ - D <= 2 * m2 <= D.
Proof.
  intros HD Ht. unfold tie in Ht. apply Z.eqb_eq in Ht.
  pose proof (Z.div_mod d D ltac:(lia)) as Hdm.
  set (q := d / D) in *. set (r := d mod D) in *.
  exists (d + (- q) * D), (d + (- q - 1) * D).
  split; [lia|]. split; [eexists; reflexivity|]. split; [eexists; reflexivity|]. lia.
Qed.
Print Assumptions tie_two_images.

(* ====================================================================== *)
(* A5                                                                      *)
(* ====================================================================== *)

Theorem disp_min_image D : 0 < D -> forall cs d, In d (displacements D cs) -> - D <= 2 * d <= D.
Proof.
  intros HD [|c0 r] d Hin; [contradiction|].
  cbn [displacements] in Hin. destruct Hin as [<-|Hin]; [lia|].
  apply in_map_iff in Hin. destruct Hin as (e & <- & _). apply mi_range. exact HD.
Qed.
Print Assumptions disp_min_image.

(* ====================================================================== *)
(* A6                                                                      *)
(* ====================================================================== *)

Lemma recon_gen D c0 : forall r prev acc, (exists k, c0 + acc = prev + k * D) ->
  map (wrapD D) r = map (fun c => wrapD D (c0 + c)) (cumsum acc (map (mi D) (diffs prev r))).
Proof.
  induction r as [|x r IH]; intros prev acc [k Hk]; [reflexivity|].
  cbn [diffs map cumsum].
  assert (Hx : c0 + (acc + mi D (x - prev)) = x + (k - nint D (x - prev)) * D).
  { unfold mi. replace (c0 + (acc + (x - prev - D * nint D (x - prev))))
      with ((c0 + acc) + (x - prev - D * nint D (x - prev))) by ring. rewrite Hk. ring. }
  f_equal.
  - rewrite Hx. symmetry. apply wrapD_add_mul.
  - apply IH. eexists. exact Hx.
Qed.

Theorem recon D : 0 < D -> forall c0 r,
  positions D (c0 :: r) = repositions D c0 (displacements D (c0 :: r)).
Proof.
  intros _ c0 r. unfold positions, repositions. cbn [displacements map cumsum].
  f_equal.
  - f_equal. lia.
  - apply recon_gen. exists 0. lia.
Qed.
Print Assumptions recon.

(* ====================================================================== *)
(* A8 (before A7, which uses it)                                           *)
(* ====================================================================== *)

Theorem nint_shift D d : 0 < D -> tie D d = false -> forall k, nint D (d + k * D) = nint D d + k.
Proof.
  intros HD Ht k. unfold tie in Ht. apply Z.eqb_neq in Ht.
  unfold nint. rewrite (div_add_mul D d k HD), mod_add_mul.
  set (q := d / D) in *. set (r := d mod D) in *.
  destruct (Z.ltb_spec (2 * r) D) as [H1|H1]; [reflexivity|].
  destruct (Z.ltb_spec D (2 * r)) as [H2|H2]; [lia|]. lia.
Qed.
Print Assumptions nint_shift.

(* with ties it still holds for even translations *)
Theorem nint_shift_even D d : 0 < D -> forall k, nint D (d + (2 * k) * D) = nint D d + 2 * k.
Proof.
  intros HD k.
  unfold nint. rewrite (div_add_mul D d (2 * k) HD), mod_add_mul.
  set (q := d / D) in *. set (r := d mod D) in *.
  destruct (Z.ltb_spec (2 * r) D) as [H1|H1]; [reflexivity|].
  destruct (Z.ltb_spec D (2 * r)) as [H2|H2]; [lia|].
  replace (q + 2 * k) with (q + 2 * k) by reflexivity.
  rewrite Z.even_add_mul_2. destruct (Z.even q); lia.
Qed.
Print Assumptions nint_shift_even.

(* ... and fails for odd translations at a tie (D = 8, d = 4, k = 1): refutation of the
   unrestricted statement *)
Theorem nint_shift_tie_refuted :
  ~ (forall D d k, 0 < D -> nint D (d + k * D) = nint D d + k).
Proof. intro H. specialize (H 8 4 1 ltac:(lia)). vm_compute in H. discriminate H. Qed.
Print Assumptions nint_shift_tie_refuted.

Theorem mi_congruent_inputs D d : 0 < D -> tie D d = false -> forall k, mi D (d + k * D) = mi D d.
Proof. intros HD Ht k. unfold mi. rewrite (nint_shift D d HD Ht k). ring. Qed.
Print Assumptions mi_congruent_inputs.

Theorem mi_congruent_inputs_tie_refuted :
  ~ (forall D d k, 0 < D -> mi D (d + k * D) = mi D d).
Proof. intro H. specialize (H 8 4 1 ltac:(lia)). vm_compute in H. discriminate H. Qed.
Print Assumptions mi_congruent_inputs_tie_refuted.

(* ====================================================================== *)
(* A7                                                                      *)
(* ====================================================================== *)

Lemma shift_invariant_gen D : 0 < D -> forall r ns prev np,
  forallb (fun d => negb (tie D d)) (diffs prev r) = true -> length ns = length r ->
  map (mi D) (diffs (prev + D * np) (zip_with (fun c n => c + D * n) r ns)) = map (mi D) (diffs prev r).
Proof.
  intros HD. induction r as [|x r IH]; intros ns prev np Hnt Hlen.
  - destruct ns; reflexivity.
  - destruct ns as [|n ns]; [discriminate Hlen|].
    cbn [zip_with diffs map]. cbn [diffs forallb] in Hnt.
    apply andb_true_iff in Hnt. destruct Hnt as [Ht Hnt]. apply negb_true_iff in Ht.
    f_equal.
    + replace (x + D * n - (prev + D * np)) with ((x - prev) + (n - np) * D) by ring.
      apply mi_congruent_inputs; assumption.
    + apply IH; [exact Hnt|]. cbn [length] in Hlen. congruence.
Qed.

Theorem shift_invariant D : 0 < D -> forall cs ns, no_tie D cs = true -> length ns = length cs ->
  displacements D (zip_with (fun c n => c + D * n) cs ns) = displacements D cs.
Proof.
  intros HD [|c0 r] ns Hnt Hlen.
  - destruct ns; reflexivity.
  - destruct ns as [|n ns]; [discriminate Hlen|].
    cbn [zip_with displacements]. f_equal.
    apply shift_invariant_gen; [exact HD|exact Hnt|]. cbn [length] in Hlen. congruence.
Qed.
Print Assumptions shift_invariant.

Theorem cumdisp_shift_invariant D : 0 < D -> forall cs ns, no_tie D cs = true -> length ns = length cs ->
  cumdisp D (zip_with (fun c n => c + D * n) cs ns) = cumdisp D cs.
Proof. intros HD cs ns Hnt Hlen. unfold cumdisp. rewrite shift_invariant by assumption. reflexivity. Qed.
Print Assumptions cumdisp_shift_invariant.

(* ====================================================================== *)
(* A9                                                                      *)
(* ====================================================================== *)

Lemma positions_as_shift D : 0 < D -> forall cs,
  positions D cs = zip_with (fun c n => c + D * n) cs (map (fun c => - (c / D)) cs).
Proof.
  intros HD. induction cs as [|c cs IH]; [reflexivity|].
  unfold positions in *. cbn [map zip_with]. f_equal; [|exact IH].
  unfold wrapD. pose proof (Z.div_mod c D ltac:(lia)) as H. rewrite Z.mul_opp_r. lia.
Qed.

Theorem displacements_of_positions D cs : 0 < D -> no_tie D cs = true ->
  displacements D (positions D cs) = displacements D cs.
Proof.
  intros HD Hnt. rewrite (positions_as_shift D HD).
  apply shift_invariant; [exact HD|exact Hnt|]. apply map_length.
Qed.
Print Assumptions displacements_of_positions.

(* ====================================================================== *)
(* A10                                                                     *)
(* ====================================================================== *)

Theorem positions_idempotent D cs : 0 < D -> positions D (positions D cs) = positions D cs.
Proof.
  intros HD. unfold positions. rewrite map_map. apply map_ext. intro c.
  unfold wrapD. apply Z.mod_mod. lia.
Qed.
Print Assumptions positions_idempotent.

(* ====================================================================== *)
(* A11                                                                     *)
(* ====================================================================== *)

Lemma cumsum_diffs_gen c0 : forall r prev acc, c0 + acc = prev ->
  map (fun c => c0 + c) (cumsum acc (diffs prev r)) = r.
Proof.
  induction r as [|x r IH]; intros prev acc H; [reflexivity|].
  cbn [diffs cumsum map]. f_equal; [lia|]. apply IH. lia.
Qed.

Theorem cumsum_diffs c0 r : map (fun c => c0 + c) (cumsum 0 (diffs c0 r)) = r.
Proof. apply cumsum_diffs_gen. lia. Qed.
Print Assumptions cumsum_diffs.
