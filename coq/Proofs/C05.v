From GV Require Import Base.Prelude Model.C05.

Lemma zsum_map_add {A} (f g : A -> Z) l :
  zsum (map (fun x => f x + g x) l) = zsum (map f l) + zsum (map g l).
Proof. induction l as [|x l IH]; cbn [map zsum]; lia. Qed.

Lemma zsum_map_ext {A} (f g : A -> Z) l :
  (forall x, In x l -> f x = g x) -> zsum (map f l) = zsum (map g l).
Proof.
  induction l as [|x l IH]; intros H; cbn [map zsum]; [reflexivity|].
  rewrite (H x (or_introl eq_refl)), IH; [reflexivity|]. intros y Hy. apply H. right. exact Hy.
Qed.

Lemma zsum_map_zero {A} (f : A -> Z) l : (forall x, In x l -> f x = 0) -> zsum (map f l) = 0.
Proof.
  induction l as [|x l IH]; intros H; cbn [map zsum]; [reflexivity|].
  rewrite (H x (or_introl eq_refl)), IH; [reflexivity|]. intros y Hy. apply H. right. exact Hy.
Qed.

(* ---------- generic counting over a partition by key ---------- *)
Section Partition.
  Context {K R : Type}.
  Variable keqb : K -> K -> bool.
  Hypothesis keqb_spec : forall a b, keqb a b = true <-> a = b.
  Variable key : R -> K.
  Variable w : K -> Z.

  Definition kcount (k : K) (rows : list R) : Z :=
    Z.of_nat (length (filter (fun r => keqb k (key r)) rows)).

  Lemma kcount_cons k r rows :
    kcount k (r :: rows) = (if keqb k (key r) then 1 else 0) + kcount k rows.
  Proof. unfold kcount. cbn [filter]. destruct (keqb k (key r)); cbn [length]; lia. Qed.

  Lemma indicator_sum : forall ks x, NoDup ks -> In x ks ->
    zsum (map (fun k => w k * (if keqb k x then 1 else 0)) ks) = w x.
  Proof.
    induction ks as [|k ks IH]; intros x Hnd Hin; [contradiction|].
    inversion Hnd as [|? ? Hnotin Hnd']; subst. cbn [map zsum].
    destruct Hin as [->|Hin].
    - assert (E : keqb x x = true) by (apply keqb_spec; reflexivity). rewrite E.
      rewrite zsum_map_zero; [lia|]. intros y Hy.
      destruct (keqb y x) eqn:Ey; [|lia]. apply keqb_spec in Ey. subst y. contradiction.
    - destruct (keqb k x) eqn:Ek.
      + apply keqb_spec in Ek. subst k. contradiction.
      + rewrite IH by assumption. lia.
  Qed.

  Theorem wsum_partition : forall ks rows, NoDup ks -> (forall r, In r rows -> In (key r) ks) ->
    zsum (map (fun k => w k * kcount k rows) ks) = zsum (map (fun r => w (key r)) rows).
  Proof.
    intros ks rows Hnd. induction rows as [|r rows IH]; intros Hin.
    - cbn [map zsum]. apply zsum_map_zero. intros k _. unfold kcount. cbn. lia.
    - cbn [map zsum]. rewrite <- IH by (intros r' Hr'; apply Hin; right; exact Hr').
      rewrite <- (indicator_sum ks (key r) Hnd (Hin r (or_introl eq_refl))).
      rewrite <- zsum_map_add. apply zsum_map_ext. intros k _. rewrite kcount_cons. lia.
  Qed.
End Partition.

(* ---------- pairs ---------- *)
Lemma pair_eqb_spec (p q : Z * Z) : pair_eqb p q = true <-> p = q.
Proof.
  destruct p as [a b], q as [c d]. unfold pair_eqb. cbn [fst snd]. split.
  - intro H. apply andb_true_iff in H. destruct H as [H1 H2].
    apply Z.eqb_eq in H1. apply Z.eqb_eq in H2. congruence.
  - intro H. inversion H; subst. rewrite !Z.eqb_refl. reflexivity.
Qed.

Lemma pcount_kcount p rows : pcount p rows = kcount pair_eqb (fun r => r) p rows.
Proof. reflexivity. Qed.

Definition all_pairs (n : nat) : list (Z * Z) := list_prod (zrange 0 n) (zrange 0 n).

Lemma NoDup_app_intro {A} (a b : list A) :
  NoDup a -> NoDup b -> (forall x, In x a -> In x b -> False) -> NoDup (a ++ b).
Proof.
  intros Ha Hb Hd. induction Ha as [|x a Hx Ha IH]; [exact Hb|].
  cbn [app]. constructor.
  - intro Hin. apply in_app_or in Hin. destruct Hin as [Hin|Hin]; [contradiction|].
    apply (Hd x); [left; reflexivity|exact Hin].
  - apply IH. intros y Hy1 Hy2. apply (Hd y); [right; exact Hy1|exact Hy2].
Qed.

Lemma NoDup_map_pair {A B} (a : A) (lb : list B) : NoDup lb -> NoDup (map (fun y => (a, y)) lb).
Proof.
  intros Hb. induction Hb as [|y lb Hy Hb IH]; [constructor|]. cbn [map]. constructor; [|exact IH].
  intro Hin. apply in_map_iff in Hin. destruct Hin as (y' & E & Hy'). inversion E; subst. contradiction.
Qed.

Lemma NoDup_list_prod {A B} (la : list A) (lb : list B) :
  NoDup la -> NoDup lb -> NoDup (list_prod la lb).
Proof.
  intros Ha Hb. induction Ha as [|a la Hnotin Ha IH]; [constructor|].
  cbn [list_prod]. apply NoDup_app_intro.
  - apply NoDup_map_pair. exact Hb.
  - exact IH.
  - intros [x y] H1 H2. apply in_map_iff in H1. destruct H1 as (b & Eb & _). inversion Eb; subst.
    apply in_prod_iff in H2. destruct H2 as [H2 _]. contradiction.
Qed.

Lemma all_pairs_NoDup n : NoDup (all_pairs n).
Proof. apply NoDup_list_prod; apply zrange_NoDup. Qed.

Lemma all_pairs_in n p : In p (all_pairs n) <-> in_range (Z.of_nat n) p = true.
Proof.
  destruct p as [i j]. unfold all_pairs, in_range. cbn [fst snd]. rewrite in_prod_iff, !zrange_in. lia.
Qed.

Lemma msum_flat_gen (f : Z -> Z -> Z) (rows cols : list Z) :
  zsum (map (fun i => zsum (map (fun j => f i j) cols)) rows)
  = zsum (map (fun p => f (fst p) (snd p)) (list_prod rows cols)).
Proof.
  induction rows as [|i rows IH]; [reflexivity|].
  cbn [map zsum list_prod]. rewrite map_app, zsum_app, IH, map_map. reflexivity.
Qed.

Lemma msum_flat n f :
  msum n f = zsum (map (fun p => f (fst p) (snd p)) (all_pairs n)).
Proof. apply msum_flat_gen. Qed.

(* ---------- the fancy-index assignment ---------- *)
Lemma lex_max_all_eq : forall l q acc, (forall p, In p l -> p = q) -> (acc = None \/ acc = Some q) ->
  (l <> [] \/ acc = Some q) ->
  fold_left (fun acc p => match acc with
                          | None => Some p
                          | Some q0 => if lex_ltb q0 p then Some p else Some q0
                          end) l acc = Some q.
Proof.
  induction l as [|p l IH]; intros q acc Hall Hacc Hne.
  - destruct Hne as [Hne|Hne]; [congruence|exact Hne].
  - cbn [fold_left]. assert (p = q) by (apply Hall; left; reflexivity). subst p.
    apply IH.
    + intros p Hp. apply Hall. right. exact Hp.
    + right. destruct Hacc as [->| ->]; [reflexivity|]. destruct (lex_ltb q q); reflexivity.
    + right. destruct Hacc as [->| ->]; [reflexivity|]. destruct (lex_ltb q q); reflexivity.
Qed.

Lemma norm_id n x : 0 <= x -> norm n x = x.
Proof. intro H. unfold norm. destruct (Z.ltb_spec x 0); [lia|reflexivity]. Qed.

Theorem entry_in_range : forall n rows i j,
  (forall p, In p rows -> in_range n p = true) ->
  entry n rows i j = pcount (i, j) rows.
Proof.
  intros n rows i j Hr. unfold entry.
  set (F := filter (fun p => (norm n (fst p) =? i) && (norm n (snd p) =? j)) rows).
  assert (HF : forall p, In p F -> p = (i, j)).
  { intros [a b] Hp. apply filter_In in Hp. destruct Hp as [Hp Hc]. apply Hr in Hp.
    unfold in_range in Hp. cbn [fst snd] in *. rewrite !norm_id in Hc by lia.
    apply andb_true_iff in Hc. destruct Hc as [H1 H2]. apply Z.eqb_eq in H1. apply Z.eqb_eq in H2. congruence. }
  destruct F as [|p F'] eqn:EF.
  - cbn. unfold pcount.
    destruct (filter (pair_eqb (i, j)) rows) as [|q l] eqn:E; [reflexivity|].
    exfalso. assert (Hq : In q (filter (pair_eqb (i, j)) rows)) by (rewrite E; left; reflexivity).
    apply filter_In in Hq. destruct Hq as [Hq Hc]. apply pair_eqb_spec in Hc. subst q.
    assert (Hin : In (i, j) F).
    { unfold F. apply filter_In. split; [exact Hq|]. apply Hr in Hq. unfold in_range in Hq.
      cbn [fst snd] in *. rewrite !norm_id by lia. rewrite !Z.eqb_refl. reflexivity. }
    rewrite EF in Hin. contradiction.
  - unfold lex_max. rewrite (lex_max_all_eq (p :: F') (i, j) None); auto. left. discriminate.
Qed.

Theorem matrix_sum : forall n rows,
  (forall p, In p rows -> in_range (Z.of_nat n) p = true) ->
  msum n (entry (Z.of_nat n) rows) = Z.of_nat (length rows).
Proof.
  intros n rows Hr. rewrite msum_flat.
  rewrite (zsum_map_ext _ (fun p => 1 * kcount pair_eqb (fun r => r) p rows)).
  - rewrite (wsum_partition pair_eqb pair_eqb_spec (fun r => r) (fun _ => 1) (all_pairs n) rows).
    + clear Hr. induction rows as [|r rows IH]; cbn [map zsum length]; [reflexivity|lia].
    + apply all_pairs_NoDup.
    + intros r Hin. apply all_pairs_in. apply Hr. exact Hin.
  - intros [i j] _. cbn [fst snd]. rewrite entry_in_range by exact Hr. rewrite pcount_kcount. lia.
Qed.

Theorem weighted_sum_identity : forall n rows (w : Z -> Z -> Z),
  (forall p, In p rows -> in_range (Z.of_nat n) p = true) ->
  msum n (fun i j => w i j * entry (Z.of_nat n) rows i j) = rows_wsum w rows.
Proof.
  intros n rows w Hr. rewrite msum_flat. unfold rows_wsum.
  rewrite (zsum_map_ext _ (fun p => (fun q => w (fst q) (snd q)) p * kcount pair_eqb (fun r => r) p rows)).
  - apply (wsum_partition pair_eqb pair_eqb_spec (fun r => r) (fun q => w (fst q) (snd q))).
    + apply all_pairs_NoDup.
    + intros r Hin. apply all_pairs_in. apply Hr. exact Hin.
  - intros [i j] _. cbn [fst snd]. rewrite entry_in_range by exact Hr. rewrite pcount_kcount. reflexivity.
Qed.

Theorem diag_zero : forall n rows i,
  (forall p, In p rows -> in_range n p = true) ->
  (forall p, In p rows -> fst p <> snd p) ->
  entry n rows i i = 0.
Proof.
  intros n rows i Hr Hd. rewrite entry_in_range by exact Hr. unfold pcount.
  destruct (filter (pair_eqb (i, i)) rows) as [|q l] eqn:E; [reflexivity|].
  exfalso. assert (Hq : In q (filter (pair_eqb (i, i)) rows)) by (rewrite E; left; reflexivity).
  apply filter_In in Hq. destruct Hq as [Hq Hc]. apply pair_eqb_spec in Hc. subst q.
  apply (Hd _ Hq). reflexivity.
Qed.

Theorem support_is_edge_set : forall p rows, 0 < pcount p rows <-> In p rows.
Proof.
  intros p rows. unfold pcount. split.
  - intro H. destruct (filter (pair_eqb p) rows) as [|q l] eqn:E; [cbn in H; lia|].
    assert (Hq : In q (filter (pair_eqb p) rows)) by (rewrite E; left; reflexivity).
    apply filter_In in Hq. destruct Hq as [Hq Hc]. apply pair_eqb_spec in Hc. subst q. exact Hq.
  - intro H. assert (Hq : In p (filter (pair_eqb p) rows)).
    { apply filter_In. split; [exact H|]. apply pair_eqb_spec. reflexivity. }
    destruct (filter (pair_eqb p) rows); [contradiction|]. cbn [length]. lia.
Qed.

(* counter by label is the aggregation of the matrix over the cells with those labels *)
Theorem counter_aggregates_matrix : forall n labels rows la lb,
  (forall p, In p rows -> in_range (Z.of_nat n) p = true) ->
  msum n (fun i j => (if (lab labels i =? la) && (lab labels j =? lb) then 1 else 0)
                     * entry (Z.of_nat n) rows i j)
  = counter labels rows la lb.
Proof.
  intros n labels rows la lb Hr. rewrite weighted_sum_identity by exact Hr.
  unfold rows_wsum, counter. induction rows as [|p rows IH]; [reflexivity|].
  cbn [map zsum filter]. rewrite IH by (intros q Hq; apply Hr; right; exact Hq).
  destruct ((lab labels (fst p) =? la) && (lab labels (snd p) =? lb)); cbn [length]; lia.
Qed.

(* the label-level counter conserves the total *)
Theorem counter_sum : forall labels rows (L : list Z),
  NoDup L -> (forall p, In p rows -> In (lab labels (fst p)) L /\ In (lab labels (snd p)) L) ->
  zsum (map (fun q => counter labels rows (fst q) (snd q)) (list_prod L L)) = Z.of_nat (length rows).
Proof.
  intros labels rows L Hnd Hin.
  rewrite (zsum_map_ext _ (fun q => 1 * kcount pair_eqb (fun p => (lab labels (fst p), lab labels (snd p))) q rows)).
  - rewrite (wsum_partition pair_eqb pair_eqb_spec _ (fun _ => 1) (list_prod L L) rows).
    + clear Hin. induction rows as [|r rows IH]; cbn [map zsum length]; [reflexivity|lia].
    + apply NoDup_list_prod; exact Hnd.
    + intros r Hr. apply in_prod_iff. apply Hin. exact Hr.
  - intros [a b] _. unfold counter, kcount, pair_eqb. cbn [fst snd].
    rewrite Z.mul_1_l. f_equal. f_equal. apply filter_ext. intros p.
    rewrite (Z.eqb_sym a), (Z.eqb_sym b). reflexivity.
Qed.

(* occupancy: per-site counts add up to the number of (frame, atom) entries at a site *)
Lemma col_partition n col :
  (forall x, In x col -> -1 <= x < Z.of_nat n) ->
  zsum (map (fun k => Z.of_nat (length (filter (Z.eqb k) col))) (zrange 0 n))
  = Z.of_nat (length (filter (fun x => negb (x =? -1)) col)).
Proof.
  intros Hc. induction col as [|x col IH]; cbn [filter length].
  - apply zsum_map_zero. intros. reflexivity.
  - rewrite <- (zsum_map_ext (fun k => (if k =? x then 1 else 0) + Z.of_nat (length (filter (Z.eqb k) col)))).
    2:{ intros k _. destruct (k =? x); cbn [length]; lia. }
    rewrite zsum_map_add, IH by (intros y Hy; apply Hc; right; exact Hy).
    assert (Hx := Hc x (or_introl eq_refl)).
    destruct (Z.eqb_spec x (-1)) as [->|Hne]; cbn [negb length].
    + rewrite zsum_map_zero; [lia|]. intros k Hk. apply zrange_in in Hk.
      destruct (Z.eqb_spec k (-1)); [lia|reflexivity].
    + assert (Hi : zsum (map (fun k => 1 * (if k =? x then 1 else 0)) (zrange 0 n)) = 1).
      { apply (indicator_sum Z.eqb Z.eqb_eq (fun _ => 1)); [apply zrange_NoDup|]. apply zrange_in. lia. }
      rewrite <- (zsum_map_ext (fun k => 1 * (if k =? x then 1 else 0))) by (intros; lia).
      rewrite Hi. lia.
Qed.

Theorem occupancy_sum : forall n states,
  (forall col x, In col states -> In x col -> -1 <= x < Z.of_nat n) ->
  zsum (map (occ_count states) (zrange 0 n)) = visited_count states.
Proof.
  intros n states. unfold occ_count, visited_count.
  induction states as [|col states IH]; intros Hc.
  - cbn [map zsum]. apply zsum_map_zero. intros. reflexivity.
  - cbn [map zsum]. rewrite zsum_map_add. rewrite IH.
    + rewrite col_partition; [reflexivity|]. intros x Hx. apply (Hc col x); [left; reflexivity|exact Hx].
    + intros c x Hc1 Hx. apply (Hc c x); [right; exact Hc1|exact Hx].
Qed.

(* current Transitions.matrix(): an event to "no site" is counted in the last column *)
Theorem nosite_folded_refuted : exists n rows i j, entry n rows i j <> pcount (i, j) rows.
Proof. exists 2, [(0, -1)], 0, 1. vm_compute. discriminate. Qed.

(* ---------- occupancy by label (occupancy_by_site_type, atom_locations) ---------- *)
Lemma occ_flat_is_occ_count : forall states i, occ_flat states i = occ_count states i.
Proof.
  intros states i. unfold occ_flat, occ_count. induction states as [|c r IH]; [reflexivity|].
  cbn [concat map zsum]. rewrite filter_app, app_length, Nat2Z.inj_add, IH. reflexivity.
Qed.

Lemma zsum_indicator : forall (L : list Z) a f, NoDup L -> In a L -> zsum (map (fun la => if a =? la then f else 0) L) = f.
Proof.
  induction L as [|x L IH]; intros a f Hnd Hin; [destruct Hin|].
  inversion Hnd as [|? ? Hx Hnd']; subst. cbn [map zsum]. destruct Hin as [Heq | Hin].
  - subst x. rewrite Z.eqb_refl. rewrite zsum_map_zero; [lia|].
    intros y Hy. destruct (a =? y) eqn:E; [apply Z.eqb_eq in E; subst; contradiction | reflexivity].
  - destruct (a =? x) eqn:E; [apply Z.eqb_eq in E; subst; contradiction|]. rewrite IH by assumption. lia.
Qed.

Lemma zsum_swap : forall (L ks : list Z) (g : Z -> Z -> Z),
  zsum (map (fun la => zsum (map (g la) ks)) L) = zsum (map (fun k => zsum (map (fun la => g la k) L)) ks).
Proof.
  induction L as [|x L IH]; intros ks g; cbn [map zsum].
  - symmetry. apply zsum_map_zero. reflexivity.
  - rewrite IH. rewrite <- zsum_map_add. reflexivity.
Qed.

Theorem label_total : forall labels states n (L : list Z),
  NoDup L -> (forall k, 0 <= k < Z.of_nat n -> In (lab labels k) L) ->
  (forall col x, In col states -> In x col -> -1 <= x < Z.of_nat n) ->
  zsum (map (label_num labels states n) L) = visited_count states.
Proof.
  intros labels states n L Hnd Hlab Hrange. unfold label_num. rewrite zsum_swap.
  rewrite <- (occupancy_sum n states Hrange). apply zsum_map_ext. intros k Hk. apply zrange_in in Hk.
  rewrite occ_flat_is_occ_count. apply zsum_indicator; [exact Hnd | apply Hlab; lia].
Qed.

Lemma zsum_ones : forall n t, zsum (map (fun _ : Z => 1) (zrange t n)) = Z.of_nat n.
Proof. induction n as [|n IH]; intros t; [reflexivity|]. rewrite zrange_S. cbn [map zsum]. rewrite IH. lia. Qed.

Theorem label_sites_total : forall labels n (L : list Z),
  NoDup L -> (forall k, 0 <= k < Z.of_nat n -> In (lab labels k) L) ->
  zsum (map (label_sites labels n) L) = Z.of_nat n.
Proof.
  intros labels n L Hnd Hlab. unfold label_sites. rewrite zsum_swap.
  transitivity (zsum (map (fun _ : Z => 1) (zrange 0 n))).
  - apply zsum_map_ext. intros k Hk. apply zrange_in in Hk. apply zsum_indicator; [exact Hnd | apply Hlab; lia].
  - apply zsum_ones.
Qed.
