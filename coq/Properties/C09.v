(* C09 -- property theorems only (real-number model; the stdlib real-number axioms appear
   in the assumptions and are listed in the evidence file). *)
From Coq Require Import Reals List.
From GV Require Import Model.C09 Proofs.C09.
Open Scope R_scope.

(* exp(-F / k_B T) recovers the probability on visited voxels ... *)
Theorem C09_exp_recovers : forall kT p, 0 < kT -> 0 < p -> exp (- free_energy kT p / kT) = p.
Proof. exact exp_recovers. Qed.
Print Assumptions C09_exp_recovers.
(* ... and these sum to one *)
Theorem C09_probs_sum_one : forall (cs : list R), rsum cs <> 0 -> rsum (map (fun c => prob c (rsum cs)) cs) = 1.
Proof. exact probs_sum_one. Qed.
Print Assumptions C09_probs_sum_one.
Theorem C09_exp_sums_to_one : forall kT cs, 0 < kT -> (forall c, In c cs -> 0 <= c) -> rsum cs <> 0 ->
  rsum (map (fun c => if Req_EM_T c 0 then 0 else exp (- free_energy kT (prob c (rsum cs)) / kT)) cs) = 1.
Proof. exact exp_sums_to_one. Qed.
Print Assumptions C09_exp_sums_to_one.
(* a denser voxel never has a higher free energy *)
Theorem C09_monotone : forall kT p q, 0 < kT -> 0 < p -> p <= q -> free_energy kT q <= free_energy kT p.
Proof. exact monotone. Qed.
Print Assumptions C09_monotone.
Theorem C09_nonneg : forall kT p, 0 < kT -> 0 < p -> p <= 1 -> 0 <= free_energy kT p.
Proof. exact nonneg. Qed.
Print Assumptions C09_nonneg.
(* never-visited voxels get the finite value BIG and are excluded by any threshold <= 1e20 *)
Theorem C09_unvisited_big : forall kT, free_energy kT 0 = BIG.
Proof. exact unvisited_big. Qed.
Print Assumptions C09_unvisited_big.
Theorem C09_big_excluded : forall thr, thr <= 100000000000000000000 -> ~ admitted thr BIG.
Proof. exact big_excluded. Qed.
Print Assumptions C09_big_excluded.
Theorem C09_visited_admitted : forall kT p thr, 0 < kT -> kT <= 1 ->
  1 / 1000000000000000000000000000000 <= p -> p <= 1 -> 100 <= thr -> admitted thr (free_energy kT p).
Proof. exact visited_admitted. Qed.
Print Assumptions C09_visited_admitted.
