(* C09 -- placeholder until Proofs/C09.v lands. *)
From Coq Require Import Reals.
From GV Require Import Model.C09.
Open Scope R_scope.
Theorem C09_unvisited_big : forall kT, free_energy kT 0 = BIG.
Proof. intros. unfold free_energy. destruct (Req_EM_T 0 0); [reflexivity|contradiction]. Qed.
Print Assumptions C09_unvisited_big.
