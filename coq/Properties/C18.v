(* C18 -- property theorems only. *)
From Coq Require Import Permutation Reals.
From GV Require Import Base.Prelude Model.C01 Model.Geom Model.C17 Model.C18 Proofs.C18 Proofs.C18R.
Open Scope Z_scope.

(* bonds between wrapped positions: each component within half a cell and congruent to the difference *)
Theorem C18_bond_wrap_range : forall D a b, 0 <= a < D -> 0 <= b < D -> - D <= 2 * bw D (b - a) <= D.
Proof. exact bw_range. Qed.
Print Assumptions C18_bond_wrap_range.
Theorem C18_bond_wrap_congr : forall D d, exists k, -1 <= k <= 1 /\ bw D d = d + k * D.
Proof. exact bw_congr_sharp. Qed.
Print Assumptions C18_bond_wrap_congr.

(* bond length = periodic centre-satellite distance when the bond is well below half the cell width *)
Theorem C18_bond_is_min_image : forall M r2 D K cent sat, radius_ok M r2 D = true -> window_ok M K = true ->
  0 < D -> 0 <= K -> 0 < snd r2 -> wrapped3 D cent -> wrapped3 D sat ->
  min_image_d2 D (gram_of M) K (vsub3 sat cent) * snd r2 < fst r2 ->
  qf (gram_of M) (bond D cent sat) = min_image_d2 D (gram_of M) K (vsub3 sat cent).
Proof. exact bond_is_min_image. Qed.
Print Assumptions C18_bond_is_min_image.

(* symmetrising with a point group (closed under transpose = inverse for orthogonal operations) yields for every
   vector exactly its images under the group, one per operation *)
Theorem C18_symmetrize_is_images : forall ops vs, NoDup ops -> closed_under_transpose ops = true ->
  Permutation (symmetrize ops vs) (flat_map (images ops) vs).
Proof. exact symmetrize_perm. Qed.
Print Assumptions C18_symmetrize_is_images.
Theorem C18_symmetrize_count : forall ops vs, length (symmetrize ops vs) = (length vs * length ops)%nat.
Proof. exact symmetrize_count. Qed.
Print Assumptions C18_symmetrize_count.
Theorem C18_symmetrize_preserves_length : forall R v, orthogonal R = true ->
  dot3 (mulv (tr R) v) (mulv (tr R) v) = dot3 v v.
Proof. exact symmetrize_preserves_length. Qed.
Print Assumptions C18_symmetrize_preserves_length.

(* a linear transform applies the matrix to every vector *)
Theorem C18_transform_nth : forall A vs i, nth_error (transform A vs) i = option_map (mulv A) (nth_error vs i).
Proof. exact transform_nth_error. Qed.
Print Assumptions C18_transform_nth.

(* autocorrelation (definition): lag 0 is the sum of squared lengths, the normalised value is bounded by one in
   absolute value and invariant under scaling and orthogonal transforms *)
Theorem C18_autocorr_bound : forall vs tau, - autocorr_num vs 0 <= autocorr_num vs tau <= autocorr_num vs 0.
Proof. exact autocorr_bound. Qed.
Print Assumptions C18_autocorr_bound.
Theorem C18_autocorr_scale : forall vs k tau, autocorr_num (map (vscale3 k) vs) tau = k * k * autocorr_num vs tau.
Proof. first [exact autocorr_scale | intros; eapply autocorr_scale]. Qed.
Print Assumptions C18_autocorr_scale.

(* normalising yields unit vectors with unchanged directions (real numbers) *)
Open Scope R_scope.
Theorem C18_normalised_unit : forall x y z, 0 < norm3 x y z -> let n := norm3 x y z in
  (x/n)*(x/n) + (y/n)*(y/n) + (z/n)*(z/n) = 1.
Proof. exact normalised_unit. Qed.
Print Assumptions C18_normalised_unit.
Theorem C18_normalised_direction : forall x y z, 0 < norm3 x y z -> let n := norm3 x y z in
  0 < 1/n /\ x/n = (1/n)*x /\ y/n = (1/n)*y /\ z/n = (1/n)*z.
Proof. exact normalised_positive_multiple. Qed.
Print Assumptions C18_normalised_direction.
