(* C18 -- placeholder until Proofs/C18.v lands. *)
From GV Require Import Base.Prelude Model.Geom Model.C17 Model.C18.
Theorem C18_symmetrize_count : forall ops vs, length (symmetrize ops vs) = (length vs * length ops)%nat.
Proof.
  intros ops vs. unfold symmetrize. induction vs as [|v vs IH]; [reflexivity|].
  cbn [flat_map]. rewrite app_length, map_length, IH. reflexivity.
Qed.
Print Assumptions C18_symmetrize_count.
