(* C01 -- placeholder until Proofs/C01.v lands. *)
From GV Require Import Base.Prelude Model.C01.
Theorem C01_positions_range : forall D x, 0 < D -> 0 <= wrapD D x < D.
Proof. intros D x H. unfold wrapD. apply Z.mod_pos_bound. exact H. Qed.
Print Assumptions C01_positions_range.
