(* C01 -- property theorems only.
   Exact part: coordinates are integer numerators over a common denominator D > 0.
   Float part: np.mod(x, 1) in binary64, real-number model with Flocq's rounding and the
   executable PrimFloat twin proved to refine it. *)
From Coq Require Import Reals.
From Flocq Require Import Core.
From GV Require Import Base.Prelude Model.C01 Model.C01F Proofs.C01 Proofs.C01F Proofs.C01P.
Open Scope Z_scope.

(* reported positions lie in the half-open unit cell and equal the input up to whole
   lattice translations *)
Theorem C01_positions_range : forall D x, 0 < D -> 0 <= wrapD D x < D.
Proof. exact positions_range. Qed.
Print Assumptions C01_positions_range.
Theorem C01_positions_congr : forall D x, 0 < D -> exists k, wrapD D x = x + k * D.
Proof. exact positions_congr. Qed.
Print Assumptions C01_positions_congr.

(* per-step displacements are minimum-image vectors (each component within half a cell,
   congruent to the raw difference), unique away from exact half-cell steps *)
Theorem C01_disp_min_image : forall D, 0 < D -> forall cs d, In d (displacements D cs) -> - D <= 2 * d <= D.
Proof. exact disp_min_image. Qed.
Print Assumptions C01_disp_min_image.
Theorem C01_mi_congr : forall D d, exists k, mi D d = d + k * D.
Proof. exact mi_congr. Qed.
Print Assumptions C01_mi_congr.
Theorem C01_mi_unique : forall D d, 0 < D -> tie D d = false ->
  forall m, (exists k, m = d + k * D) -> - D <= 2 * m <= D -> m = mi D d.
Proof. exact mi_unique. Qed.
Print Assumptions C01_mi_unique.
Theorem C01_tie_both_valid : forall D d, 0 < D -> tie D d = true -> (2 * mi D d = D \/ 2 * mi D d = - D).
Proof. exact tie_both_valid. Qed.
Print Assumptions C01_tie_both_valid.

(* the running sum of the steps, added to the first frame, reproduces every frame modulo 1 *)
Theorem C01_reconstruction : forall D, 0 < D -> forall c0 r,
  positions D (c0 :: r) = repositions D c0 (displacements D (c0 :: r)).
Proof. exact recon. Qed.
Print Assumptions C01_reconstruction.

(* shifting any coordinate of any frame by whole lattice vectors changes neither the
   displacements nor the cumulative displacements (hence no distance derived from them) *)
Theorem C01_shift_invariant : forall D, 0 < D -> forall cs ns, no_tie D cs = true -> length ns = length cs ->
  displacements D (zip_with (fun c n => c + D * n) cs ns) = displacements D cs.
Proof. exact shift_invariant. Qed.
Print Assumptions C01_shift_invariant.
Theorem C01_cumdisp_shift_invariant : forall D, 0 < D -> forall cs ns, no_tie D cs = true -> length ns = length cs ->
  cumdisp D (zip_with (fun c n => c + D * n) cs ns) = cumdisp D cs.
Proof. exact cumdisp_shift_invariant. Qed.
Print Assumptions C01_cumdisp_shift_invariant.
Theorem C01_displacements_of_positions : forall D cs, 0 < D -> no_tie D cs = true ->
  displacements D (positions D cs) = displacements D cs.
Proof. exact displacements_of_positions. Qed.
Print Assumptions C01_displacements_of_positions.

(* ---------- binary64: coordinates within rounding distance of a cell face ---------- *)
Open Scope R_scope.
Theorem C01_float_range : forall x, 0 <= wrapF x < 1.
Proof. exact wrapF_range. Qed.
Print Assumptions C01_float_range.
Theorem C01_float_congr : forall x, exists k : Z, Rabs (wrapF x - (x + IZR k)) <= bpow radix2 (-53).
Proof. exact wrapF_congr. Qed.
Print Assumptions C01_float_congr.
(* the code before the repair returned exactly 1.0 for tiny negative inputs: defect D1 *)
Theorem C01_float_old_refuted : exists x, wrapF_old x = 1.
Proof. exact wrapF_old_hits_one_refuted. Qed.
Print Assumptions C01_float_old_refuted.
(* the executable twin that the tie compares bit for bit with numpy computes wrapF *)
Theorem C01_twin_correct : forall x, finiteP x -> finiteP (wrapP x) /\ P2R (wrapP x) = wrapF (P2R x).
Proof. exact wrapP_correct. Qed.
Print Assumptions C01_twin_correct.
