(* C16 -- property theorems only.  PARTIAL: the pickle codec (round trip; every strict
   prefix of a pickle fails to load) and the source parser are hypotheses of the theorems,
   validated by fault enumeration in the tie; the file system is a map name -> bytes. *)
From GV Require Import Base.Prelude Model.C16 Proofs.C16.

(* an interrupted write that left ANY number of bytes of the cache is recovered from:
   the load returns the source trajectory and leaves a complete cache behind *)
Theorem C16_load_after_crash :
  forall T A name parse_source serialize parse,
  (forall t, parse (serialize t) = Some t) ->
  (forall t p, strict_prefix p (serialize t) -> parse p = None) ->
  forall (a : A) (f : fs) (k : nat),
  let f1 := fs_set f (name a) (Some (firstn k (serialize (parse_source a)))) in
  fst (load T A name parse_source serialize parse a f1) = parse_source a /\
  snd (load T A name parse_source serialize parse a f1) (name a) = Some (serialize (parse_source a)).
Proof. exact load_after_crash. Qed.
Print Assumptions C16_load_after_crash.

(* from any consistent file system (missing / garbage / truncated / valid cache) *)
Theorem C16_load_correct :
  forall T A name parse_source serialize parse,
  (forall t, parse (serialize t) = Some t) ->
  forall a f, consistent T A name parse_source parse f ->
  fst (load T A name parse_source serialize parse a f) = parse_source a /\
  snd (load T A name parse_source serialize parse a f) (name a) <> None /\
  (exists b, snd (load T A name parse_source serialize parse a f) (name a) = Some b /\
             parse b = Some (parse_source a)).
Proof. exact load_correct. Qed.
Print Assumptions C16_load_correct.

(* repeated fault / recover cycles, any interleaving of loads with different arguments *)
Theorem C16_fault_cycles :
  forall T A name parse_source serialize parse,
  (forall t, parse (serialize t) = Some t) ->
  (forall t p, strict_prefix p (serialize t) -> parse p = None) ->
  forall es, key_separates T A name parse_source -> garbage_ok T A parse es ->
  length (snd (run T A name parse_source serialize parse fs0 es)) = length es /\
  (forall i a, nth_error es i = Some (Load A a) ->
     nth_error (snd (run T A name parse_source serialize parse fs0 es)) i = Some (Some (parse_source a))).
Proof. exact fault_cycles_fs0. Qed.
Print Assumptions C16_fault_cycles.

Theorem C16_load_leaves_complete_cache :
  forall T A name parse_source serialize parse,
  (forall t, parse (serialize t) = Some t) ->
  (forall t p, strict_prefix p (serialize t) -> parse p = None) ->
  forall es a f, key_separates T A name parse_source -> consistent T A name parse_source parse f ->
  garbage_ok T A parse es ->
  exists b, fst (run T A name parse_source serialize parse f (es ++ [Load A a])) (name a) = Some b /\
            parse b = Some (parse_source a).
Proof. exact load_leaves_complete_cache. Qed.
Print Assumptions C16_load_leaves_complete_cache.

(* the codec hypotheses are satisfiable (instance used by the tie) *)
Theorem C16_instance_roundtrip : forall t : Z, par (ser t) = Some t.
Proof. exact ser_roundtrip. Qed.
Print Assumptions C16_instance_roundtrip.
Theorem C16_instance_prefix_fails : forall (t : Z) (p : bytes), strict_prefix p (ser t) -> par p = None.
Proof. exact ser_prefix_fails. Qed.
Print Assumptions C16_instance_prefix_fails.

(* different parser options must use different default cache files: an injective name
   separates; a name that ignores an option that changes the parse result returns the
   wrong trajectory (defect D11, repaired: see Gen/CacheKey.v regenerated from the source) *)
Theorem C16_injective_name_separates : forall T A name parse_source,
  (forall a a', name a = name a' -> a = a') -> key_separates T A name parse_source.
Proof. exact injective_name_separates. Qed.
Print Assumptions C16_injective_name_separates.

Theorem C16_key_refuted : exists (es : list (event args2)) (i : nat) (a : args2) (t : Z),
  let r := run Z args2 name_hashed (fun a0 => fst a0 * 10 + snd a0) ser par fs0 es in
  nth_error es i = Some (Load args2 a) /\ nth_error (snd r) i = Some (Some t) /\ t <> fst a * 10 + snd a.
Proof. exact key_refuted. Qed.
Print Assumptions C16_key_refuted.
