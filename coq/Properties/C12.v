(* C12 -- property theorems only. *)
From Coq Require Import Permutation.
From GV Require Import Base.Prelude Model.C04 Model.C05 Model.C12 Proofs.C12 Model.C12M Proofs.C12M.

(* The (repaired) pairwise scan reports exactly the collective pairs of the sorted table *)
Theorem C12_scan_is_spec : forall W d2 maxd2 mt l,
  stop_sorted l = true -> (forall j, In j l -> j_stop j - j_start j <= mt) ->
  outer W d2 maxd2 mt l = coll_pairs W d2 maxd2 l.
Proof. exact outer_is_spec. Qed.
Print Assumptions C12_scan_is_spec.

Theorem C12_collective_is_spec : forall W d2 maxd2 table,
  collective W d2 maxd2 table = coll_pairs W d2 maxd2 (sort_jumps table).
Proof. exact collective_is_spec. Qed.
Print Assumptions C12_collective_is_spec.

Theorem C12_sort_perm : forall l, Permutation (sort_jumps l) l.
Proof. exact sort_perm. Qed.
Print Assumptions C12_sort_perm.

Theorem C12_sort_sorted : forall l, stop_sorted (sort_jumps l) = true.
Proof. exact sort_sorted. Qed.
Print Assumptions C12_sort_sorted.

(* the pair relation is symmetric, every unordered pair of distinct jumps is examined once *)
Theorem C12_coll_sym : forall W d2 maxd2 a b,
  (forall x y, dist2 d2 x y = dist2 d2 y x) -> coll W d2 maxd2 a b = coll W d2 maxd2 b a.
Proof. exact coll_sym. Qed.
Print Assumptions C12_coll_sym.

Theorem C12_pairs_once : forall l, NoDup l ->
  NoDup (all_pairs l) /\ (forall a b, In (a, b) (all_pairs l) -> ~ In (b, a) (all_pairs l)).
Proof. exact all_pairs_once. Qed.
Print Assumptions C12_pairs_once.

Theorem C12_pairs_complete : forall l a b, In a l -> In b l -> a <> b ->
  In (a, b) (all_pairs l) \/ In (b, a) (all_pairs l).
Proof. exact all_pairs_complete. Qed.
Print Assumptions C12_pairs_complete.

Theorem C12_solo_plus_coll : forall pairs table, n_solo pairs table + n_coll pairs table = Z.of_nat (length table).
Proof. exact solo_plus_coll. Qed.
Print Assumptions C12_solo_plus_coll.

(* the loop before the repair (break on the start time of a table sorted by stop time)
   was sound but incomplete: defect D9 *)
Theorem C12_old_loop_sound : forall W d2 maxd2 l p,
  In p (outer_old W d2 maxd2 l) -> In p (coll_pairs W d2 maxd2 l).
Proof. exact outer_old_sound. Qed.
Print Assumptions C12_old_loop_sound.

Theorem C12_old_loop_refuted : exists W d2 maxd2 l,
  stop_sorted l = true /\ outer_old W d2 maxd2 l <> coll_pairs W d2 maxd2 l.
Proof. exact outer_old_refuted. Qed.
Print Assumptions C12_old_loop_refuted.

(* the label-pair matrix (site_pair_count_matrix): every collective pair is counted in exactly one cell, so the matrix sums to their number *)
Theorem C12_label_pair_matrix_total : forall labels cj (P : list (Z * Z)), NoDup P ->
  (forall x, In x cj -> In (lp labels (fst x)) P /\ In (lp labels (snd x)) P) ->
  lp_total labels cj P = Z.of_nat (length cj).
Proof. exact lp_matrix_total. Qed.
Print Assumptions C12_label_pair_matrix_total.
