(* C14 -- property theorems only (real-number model; stdlib real axioms appear in the
   assumptions).  The formulas themselves are tied to the code exactly (Tie/C14.v, rational
   arithmetic) and through recomputation in the harness oracle. *)
From Coq Require Import Reals List.
From GV Require Import Model.C14 Proofs.C14.
Open Scope R_scope.

(* scaling the cell by k: density / k^3, diffusivities x k^2, amplitudes x k, frequency unchanged *)
Theorem C14_density_scale : forall n vol k, 0 < k -> vol <> 0 ->
  particle_density n (k*k*k*vol) = particle_density n vol / (k*k*k).
Proof. exact density_scale. Qed.
Print Assumptions C14_density_scale.
Theorem C14_msd_final_scale : forall dists k, msd_final (map (Rmult k) dists) = k*k * msd_final dists.
Proof. exact msd_final_scale. Qed.
Print Assumptions C14_msd_final_scale.
Theorem C14_diffusivity_scale_cell : forall msd dim t k, dim <> 0 -> t <> 0 ->
  tracer_diffusivity (k*k*msd) dim t = k*k * tracer_diffusivity msd dim t.
Proof. exact diffusivity_scale_cell. Qed.
Print Assumptions C14_diffusivity_scale_cell.
Theorem C14_amplitudes_scale : forall dist k, 0 < k ->
  amplitudes (speed (map (Rmult k) dist)) = map (Rmult k) (amplitudes (speed dist)).
Proof. exact amplitudes_speed_scale. Qed.
Print Assumptions C14_amplitudes_scale.
Theorem C14_rstd_scale : forall k l, 0 <= k -> rstd (map (Rmult k) l) = k * rstd l.
Proof. exact rstd_scale. Qed.
Print Assumptions C14_rstd_scale.
Theorem C14_meanfreq_scale_signal : forall P x fs c, P_homogeneous P -> c <> 0 ->
  rsum (map (fun k => P x k) (seq 0 (nbins x))) <> 0 -> meanfreq P (map (Rmult c) x) fs = meanfreq P x fs.
Proof. exact meanfreq_scale_signal. Qed.
Print Assumptions C14_meanfreq_scale_signal.
Theorem C14_conductivity_scale_cell : forall z msd dim t n vol T k, 0 < k -> vol <> 0 -> dim <> 0 -> t <> 0 -> T <> 0 ->
  tracer_conductivity z (tracer_diffusivity (k*k*msd) dim t) (particle_density n (k*k*k*vol)) T
  = tracer_conductivity z (tracer_diffusivity msd dim t) (particle_density n vol) T / k.
Proof. exact conductivity_scale_cell_full. Qed.
Print Assumptions C14_conductivity_scale_cell.

(* scaling the time step by s divides diffusivities and frequencies by s *)
Theorem C14_diffusivity_scale_time : forall msd dim t s, 0 < s -> dim <> 0 -> t <> 0 ->
  tracer_diffusivity msd dim (s*t) = tracer_diffusivity msd dim t / s.
Proof. exact diffusivity_scale_time. Qed.
Print Assumptions C14_diffusivity_scale_time.
Theorem C14_meanfreq_scale_fs : forall P x fs s, s <> 0 -> meanfreq P x (fs / s) = meanfreq P x fs / s.
Proof. exact meanfreq_scale_fs. Qed.
Print Assumptions C14_meanfreq_scale_fs.

(* the vibration amplitudes of an atom sum to its final distance from its starting point *)
Theorem C14_amplitudes_sum_final_distance : forall dist, rsum (amplitudes (speed dist)) = last dist 0.
Proof. exact amplitudes_sum_final_distance. Qed.
Print Assumptions C14_amplitudes_sum_final_distance.

(* atoms that all move identically give a Haven ratio of one *)
Theorem C14_haven_identical : forall d, d <> 0 -> haven_ratio d d = 1.
Proof. exact haven_identical. Qed.
Print Assumptions C14_haven_identical.
Theorem C14_weighted_mean_identical : forall (ws : list R) x, rsum ws <> 0 -> rsum (map (fun w => w * x) ws) / rsum ws = x.
Proof. exact weighted_mean_identical. Qed.
Print Assumptions C14_weighted_mean_identical.
