(* C14 -- placeholder until Proofs/C14.v lands. *)
From Coq Require Import Reals.
From GV Require Import Model.C14.
Open Scope R_scope.
Theorem C14_haven_identical : forall d, d <> 0 -> haven_ratio d d = 1.
Proof. intros d H. unfold haven_ratio. field. exact H. Qed.
Print Assumptions C14_haven_identical.
