(* C07 -- property theorems only: corollaries of the geometry (only the Gram matrix enters),
   of the admissible-set model, of the voxel arithmetic and (Proofs/C07.v, when it lands) of
   the relabelling lemmas for events, jumps, matrices and paths. *)
From GV Require Import Base.Prelude Model.C01 Model.Geom Model.C02 Model.C08 Proofs.Geom Proofs.C02 Proofs.C08.

(* rigid rotation of the cell: the metric, hence every distance and every site state, is unchanged *)
Theorem C07_gram_of_rot : forall M R, orthogonal3 R -> gram_of (mmul3 M R) = gram_of M.
Proof. exact gram_of_rot. Qed.
Print Assumptions C07_gram_of_rot.
Theorem C07_within_rot : forall D M R K p s r f, orthogonal3 R ->
  within D (gram_of (mmul3 M R)) K p s r f = within D (gram_of M) K p s r f.
Proof. first [exact within_rot | intros; eapply within_rot; eauto]. Qed.
Print Assumptions C07_within_rot.

(* translating atoms and sites together, wrapping through cell faces *)
Theorem C07_admissible_translate : forall D G K f k0 ss rs p v,
  adm_from D G K f k0 (map (fun s => vadd3 s v) ss) rs (vadd3 p v) = adm_from D G K f k0 ss rs p.
Proof. first [exact adm_from_translate_common | intros; eapply adm_from_translate_common; eauto]. Qed.
Print Assumptions C07_admissible_translate.
Theorem C07_within_wrap : forall D M K p s r f n, 0 < D -> 0 <= K -> window_ok M K = true ->
  within D (gram_of M) K (vadd3 p (vscale3 D n)) s r f = within D (gram_of M) K p s r f.
Proof. first [exact within_wrap | intros; eapply within_wrap; eauto]. Qed.
Print Assumptions C07_within_wrap.

(* density volumes are rolled by a translation that is a multiple of the voxel size *)
Theorem C07_volume_roll : forall D n q x k, n * q = D -> 0 < n -> 0 < q -> 0 <= x < D ->
  voxel D n ((x + k * q) mod D) = (voxel D n x + k) mod n.
Proof. exact volume_roll. Qed.
Print Assumptions C07_volume_roll.

From Coq Require Import Permutation.
From GV Require Import Model.C03 Model.C04 Model.C05 Model.C10 Proofs.C07.

(* permuting (relabelling) the sites relabels events and jumps and permutes the count matrix *)
Theorem C07_events_relabel : forall pi, (forall a b, pi a = pi b -> a = b) ->
  forall a t o i, events_from a t (map pi o) (map pi i) = map (relabel_row pi) (events_from a t o i).
Proof. first [exact events_from_relabel | intros; eapply events_from_relabel; eauto]. Qed.
Print Assumptions C07_events_relabel.
Theorem C07_scan_relabel : forall pi, (forall a b, pi a = pi b -> a = b) -> pi (-1) = -1 ->
  forall mr es, scan mr (map (relabel_row pi) es) = map (relabel_jump pi) (scan mr es).
Proof. first [exact scan_relabel | intros; eapply scan_relabel; eauto]. Qed.
Print Assumptions C07_scan_relabel.

(* permuting the atoms permutes the tables (as multisets of atom-less rows) and leaves the matrices unchanged *)
Theorem C07_events_atom_perm : forall a a' atoms atoms', Permutation atoms atoms' ->
  Permutation (map strip_atom (events_all a atoms)) (map strip_atom (events_all a' atoms')).
Proof. first [exact events_all_perm | intros; eapply events_all_perm; eauto]. Qed.
Print Assumptions C07_events_atom_perm.
Theorem C07_jumps_atom_perm : forall mr a a' atoms atoms', Permutation atoms atoms' ->
  Permutation (map strip_jatom (jumps_all mr a atoms)) (map strip_jatom (jumps_all mr a' atoms')).
Proof. first [exact jumps_all_perm | intros; eapply jumps_all_perm; eauto]. Qed.
Print Assumptions C07_jumps_atom_perm.

(* rolling a free-energy grid rolls its optimal paths and keeps their cost *)
Theorem C07_optimal_path_roll_exists : forall g thr diag s a b p, valid_path g thr diag a b p ->
  valid_path (roll_grid g s) thr diag (roll_node (dims g) s a) (roll_node (dims g) s b) (map (roll_node (dims g) s) p)
  /\ cost node (w2 (roll_grid g s)) (map (roll_node (dims g) s) p) = cost node (w2 g) p.
Proof. first [exact opt_cost_roll_fwd | intros; eapply opt_cost_roll_fwd; eauto]. Qed.
Print Assumptions C07_optimal_path_roll_exists.

(* density volumes: the voxel triple of a shifted sample is the rolled triple *)
Theorem C07_vox3_roll : forall D n q k p, grid_ok D n q -> wrapped D p -> vox3 D n (shift3 D q k p) = roll3 n k (vox3 D n p).
Proof. first [exact vox3_roll | intros; eapply vox3_roll; eauto]. Qed.
Print Assumptions C07_vox3_roll.
