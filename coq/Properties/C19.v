(* C19 -- property theorems only.  Generic in the boundary list; the tie evaluates the
   hypotheses (nondecreasing, first = 0, last > every event time) on the binary64
   np.linspace boundaries of each case. *)
From Coq Require Import Permutation.
From GV Require Import Base.Prelude Model.C03 Model.C04 Model.C19 Proofs.C19.

(* state arrays: n parts that concatenate to the original *)
Theorem C19_states_concat : forall A (n : nat) (l : list A), (0 < n)%nat -> concat (array_split n l) = l.
Proof. exact array_split_concat. Qed.
Print Assumptions C19_states_concat.

Theorem C19_states_n_parts : forall A (n : nat) (l : list A), (0 < n)%nat -> length (array_split n l) = n.
Proof. exact array_split_length. Qed.
Print Assumptions C19_states_n_parts.

(* event tables: every original event in exactly one part *)
Theorem C19_events_partition : forall bs evs, nondecreasing bs = true ->
  (forall r, In r evs -> hd 0 bs <= r_t r < last bs 0) ->
  Permutation (concat (split_raw bs evs)) evs.
Proof. exact split_raw_partition. Qed.
Print Assumptions C19_events_partition.

Theorem C19_events_parts_are_windows : forall bs evs k lo hi, nth_error (pairwise bs) k = Some (lo, hi) ->
  nth_error (split_raw bs evs) k = Some (filter (in_win lo hi) evs) /\
  nth_error (split_events bs evs) k = Some (map (shift_row lo) (filter (in_win lo hi) evs)).
Proof. exact split_events_nth. Qed.
Print Assumptions C19_events_parts_are_windows.

(* times re-based to a non-negative offset inside the part *)
Theorem C19_events_rebased : forall bs evs k part lo hi, nth_error (pairwise bs) k = Some (lo, hi) ->
  nth_error (split_events bs evs) k = Some part -> forall r, In r part -> 0 <= r_t r < hi - lo.
Proof. exact split_events_times. Qed.
Print Assumptions C19_events_rebased.

(* per-part counts never exceed the totals of the whole *)
Theorem C19_part_counts_le_total : forall bs evs k part (p : row -> bool),
  nth_error (split_raw bs evs) k = Some part ->
  (length (filter p part) <= length (filter p evs))%nat.
Proof. exact split_raw_count_le. Qed.
Print Assumptions C19_part_counts_le_total.

(* jump counts of the parts never add up to more than the jumps of the whole *)
Theorem C19_jumps_parts_le_total : forall mr bs evs, nondecreasing bs = true ->
  (forall r, In r evs -> hd 0 bs <= r_t r < last bs 0) ->
  time_sorted evs = true ->
  (list_sum (map (fun p => length (scan mr p)) (split_events bs evs)) <= length (scan mr evs))%nat.
Proof. exact split_events_jumps_le. Qed.
Print Assumptions C19_jumps_parts_le_total.

Theorem C19_scan_parts_le : forall mr parts,
  (list_sum (map (fun p => length (scan mr p)) parts) <= length (scan mr (concat parts)))%nat.
Proof. exact scan_parts_le. Qed.
Print Assumptions C19_scan_parts_le.

(* trajectory parts: contiguous, non-overlapping, chronologically ordered frame ranges *)
Theorem C19_traj_parts_contiguous : forall A (bs : list nat) (l : list A), nondecreasing_nat bs = true ->
  (last bs 0 <= length l)%nat -> bs <> [] ->
  concat (traj_parts bs l) = slice (hd 0%nat bs) (last bs 0%nat) l.
Proof. exact traj_parts_concat. Qed.
Print Assumptions C19_traj_parts_contiguous.

Theorem C19_equal_parts_same_length : forall A (bs : list nat) (l : list A), nondecreasing_nat bs = true ->
  (last bs 0 <= length l)%nat ->
  forall p, In p (equal_parts bs l) -> length p = min_size bs.
Proof. exact equal_parts_same_length. Qed.
Print Assumptions C19_equal_parts_same_length.

Example C19_example : split_events [0; 2; 5] [R 0 0 1 0 1 0; R 0 1 2 1 2 3; R 1 0 1 0 1 1; R 1 1 0 1 0 4]
  = [[R 0 0 1 0 1 0; R 1 0 1 0 1 1]; [R 0 1 2 1 2 1; R 1 1 0 1 0 2]].
Proof. vm_compute. reflexivity. Qed.
