(* C15 -- placeholder until Proofs/C15.v lands. *)
From GV Require Import Base.Prelude Model.C01 Model.C15.
Theorem C15_to_displacements_idem : forall D t, to_displacements D (to_displacements D t) = to_displacements D t.
Proof. intros D t. unfold to_displacements. destruct (t_mode t) eqn:E; cbn [t_mode]; [reflexivity|]. rewrite E. reflexivity. Qed.
Print Assumptions C15_to_displacements_idem.
