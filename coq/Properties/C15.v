(* C15 -- property theorems only.  [abs] = the wrapped positions of every frame; [wf] is the
   representation invariant (Proofs/C15.v); it holds for every object the API creates
   (wf_new, slice_new, filter_new) and is preserved by every operation. *)
From GV Require Import Base.Prelude Model.C01 Model.C15 Proofs.C15.

(* switching the internal representation never changes the data *)
Theorem C15_abs_to_positions : forall D t, abs D (to_positions D t) = abs D t.
Proof. first [exact abs_to_positions | intros; eapply abs_to_positions; eauto]. Qed.
Print Assumptions C15_abs_to_positions.
Theorem C15_abs_to_displacements : forall D t, 0 < D -> wf D t -> abs D (to_displacements D t) = abs D t.
Proof. first [exact abs_to_displacements | intros; eapply abs_to_displacements; eauto]. Qed.
Print Assumptions C15_abs_to_displacements.

(* no sequence of read-only operations (queries, slices, filters -- which also create new
   objects) changes the abstraction of any existing object *)
Theorem C15_read_only_sequences : forall D ops s s' rs, 0 < D ->
  forallb read_only ops = true -> Forall (wf D) s -> run D s ops = (s', rs) ->
  Forall (wf D) s' /\ (length s <= length s')%nat /\
  forall k, (k < length s)%nat -> abs D (nth k s' dummy) = abs D (nth k s dummy).
Proof. intros D ops s s' rs HD Hro Hwf Hrun. eapply run_read_only; eauto. Qed.
Print Assumptions C15_read_only_sequences.

(* ... hence no later query returns something different *)
Theorem C15_query_pos_is_abs : forall D s i,
  step D s (QPos i) = (set_nth s i (to_positions D (nth i s dummy)), RVal (abs D (nth i s dummy))).
Proof. first [exact query_pos | intros; eapply query_pos; eauto]. Qed.
Print Assumptions C15_query_pos_is_abs.
Theorem C15_query_disp_is_spec : forall D s i, 0 < D -> let t := nth i s dummy in wf D t ->
  frames_no_tie D (abs D t) = true ->
  step D s (QDisp i) = (set_nth s i (to_displacements D t), RVal (spec_disp D (abs D t))).
Proof. first [exact query_disp | intros; eapply query_disp; eauto]. Qed.
Print Assumptions C15_query_disp_is_spec.
Theorem C15_query_cum_is_spec : forall D s i, 0 < D -> let t := nth i s dummy in wf D t ->
  frames_no_tie D (abs D t) = true ->
  step D s (QCum i) = (set_nth s i (to_displacements D t), RVal (spec_cum D (abs D t))).
Proof. first [exact query_cum | intros; eapply query_cum; eauto]. Qed.
Print Assumptions C15_query_cum_is_spec.

(* derived trajectories contain exactly the corresponding frames / atoms of the source *)
Theorem C15_slice : forall D s i a b c s' v, Forall (wf D) s ->
  step D s (OSlice i a b c) = (s', RVal v) ->
  let t := nth i s dummy in
  exists idx new, py_slice a b c (length (abs D t)) = Some idx /\
    (forall k, In k idx -> 0 <= k < Z.of_nat (length (abs D t))) /\
    v = select [] (abs D t) idx /\ s' = set_nth s i (to_positions D t) ++ [new] /\
    last s' dummy = new /\ abs D new = v /\ wf D new.
Proof. first [exact slice_new | intros; eapply slice_new; eauto]. Qed.
Print Assumptions C15_slice.
Theorem C15_extend : forall D s i j s' r, (i < length s)%nat -> step D s (OExtend i j) = (s', r) ->
  length s' = length s /\ r = RNone /\
  abs D (nth i s' dummy) = abs D (nth i s dummy) ++ abs D (nth j s dummy) /\
  forall k, k <> i -> abs D (nth k s' dummy) = abs D (nth k s dummy).
Proof. first [exact extend_abs | intros; eapply extend_abs; eauto]. Qed.
Print Assumptions C15_extend.

(* Python slice semantics: every produced index is a valid frame index *)
Theorem C15_py_slice_valid : forall start stop step len idx,
  py_slice start stop step len = Some idx -> forall i, In i idx -> 0 <= i < Z.of_nat len.
Proof. first [exact py_slice_valid | intros; eapply py_slice_valid; eauto]. Qed.
Print Assumptions C15_py_slice_valid.
Theorem C15_py_slice_plain : forall a b len, 0 <= a <= b -> b <= Z.of_nat len ->
  py_slice (Some a) (Some b) None len = Some (zrange a (Z.to_nat (b - a))).
Proof. first [exact py_slice_plain | intros; eapply py_slice_plain; eauto]. Qed.
Print Assumptions C15_py_slice_plain.
