(* C10 -- property theorems only.  Optimality is established per case by checked
   certificates; the theorems below say what a passing check means, for every graph. *)
From GV Require Import Base.Prelude Model.C10 Proofs.C10.

(* a feasible potential bounds the cost of EVERY path from s to t from below *)
Theorem C10_potential_lower_bound :
  forall (V : Type) (veqb : V -> V -> bool), (forall a b, veqb a b = true <-> a = b) ->
  forall edge_list (w : V -> V -> Z) (pot : V -> Z) p s t,
  feasible V edge_list w pot = true -> path_ok V veqb edge_list p = true ->
  endpoints V veqb s t p = true -> pot t - pot s <= cost V w p.
Proof. exact potential_lower_bound. Qed.
Print Assumptions C10_potential_lower_bound.

(* hence a returned path whose cost meets the bound is cost-minimal among all admissible paths *)
Theorem C10_optimal_by_certificate :
  forall (V : Type) (veqb : V -> V -> bool), (forall a b, veqb a b = true <-> a = b) ->
  forall edge_list (w : V -> V -> Z) (pot : V -> Z) q s t,
  feasible V edge_list w pot = true -> path_ok V veqb edge_list q = true ->
  endpoints V veqb s t q = true -> cost V w q = pot t - pot s ->
  forall p, path_ok V veqb edge_list p = true -> endpoints V veqb s t p = true -> cost V w q <= cost V w p.
Proof. exact optimal_by_certificate. Qed.
Print Assumptions C10_optimal_by_certificate.

Theorem C10_near_optimal_by_certificate :
  forall (V : Type) (veqb : V -> V -> bool), (forall a b, veqb a b = true <-> a = b) ->
  forall edge_list (w : V -> V -> Z) (pot : V -> Z) q s t (eps : Z),
  feasible V edge_list w pot = true -> path_ok V veqb edge_list q = true ->
  endpoints V veqb s t q = true -> cost V w q <= pot t - pot s + eps ->
  forall p, path_ok V veqb edge_list p = true -> endpoints V veqb s t p = true -> cost V w q <= cost V w p + eps.
Proof. exact near_optimal_by_certificate. Qed.
Print Assumptions C10_near_optimal_by_certificate.

(* "no path" answers: a set closed under outgoing edges that contains s but not t *)
Theorem C10_cut_unreachable :
  forall (V : Type) (veqb : V -> V -> bool), (forall a b, veqb a b = true <-> a = b) ->
  forall edge_list inC s t p, closed_cut V edge_list inC s t = true ->
  path_ok V veqb edge_list p = true -> endpoints V veqb s t p = true -> False.
Proof. exact cut_unreachable. Qed.
Print Assumptions C10_cut_unreachable.

(* a valid path on the model graph starts/ends where requested, steps only between neighbouring
   voxels of the periodic grid (faces, or faces+edges+corners) that are below the threshold *)
Theorem C10_path_valid : forall g thr diag p,
  path_ok node node_eqb (edges g thr diag) p = true -> (2 <= length p)%nat ->
  (forall v, In v p -> admissible g thr v = true) /\
  (forall p1 u v p2, p = p1 ++ u :: v :: p2 -> exists m, In m (moves diag) /\ v = step_to (dims g) u m).
Proof. exact path_nodes_admissible. Qed.
Print Assumptions C10_path_valid.
Theorem C10_edges_iff : forall g thr diag u v, In (u, v) (edges g thr diag) <->
  admissible g thr u = true /\ admissible g thr v = true /\ exists m, In m (moves diag) /\ v = step_to (dims g) u m.
Proof. exact edges_iff. Qed.
Print Assumptions C10_edges_iff.

(* minimising the sum of edge weights (means of endpoint energies) = minimising the reported total energy *)
Theorem C10_cost_is_total_energy : forall g s t p q,
  endpoints node node_eqb s t p = true -> endpoints node node_eqb s t q = true ->
  (cost node (w2 g) p <= cost node (w2 g) q <-> total_energy g p <= total_energy g q).
Proof. exact cost_w2_le_iff_total. Qed.
Print Assumptions C10_cost_is_total_energy.

(* min-max criterion: a cut whose crossing nodes all have energy >= B forces every path to reach B *)
Theorem C10_minmax_lower_bound :
  forall (V : Type) (veqb : V -> V -> bool), (forall a b, veqb a b = true <-> a = b) ->
  forall edge_list en inC B s t p, minmax_cut V edge_list en inC B s t = true ->
  path_ok V veqb edge_list p = true -> endpoints V veqb s t p = true -> exists v, In v p /\ B <= en v.
Proof. exact minmax_lower_bound. Qed.
Print Assumptions C10_minmax_lower_bound.

(* percolation: the target is the periodic image exactly one cell away along each requested axis *)
Theorem C10_perc_stop_offsets : forall d perc s,
  let '(nx, ny, nz) := d in let '(px, py, pz) := perc in
  let '(x, y, z) := s in let '(x', y', z') := perc_stop d perc s in
  x' - x = (if px then nx else 0) /\ y' - y = (if py then ny else 0) /\ z' - z = (if pz then nz else 0).
Proof. exact perc_stop_offsets. Qed.
Print Assumptions C10_perc_stop_offsets.
Theorem C10_perc_stop_image : forall d perc s, in_grid d s = true ->
  let '(nx, ny, nz) := d in let '(x', y', z') := perc_stop d perc s in
  (x' mod nx, y' mod ny, z' mod nz) = s.
Proof. exact perc_stop_image. Qed.
Print Assumptions C10_perc_stop_image.
Theorem C10_tile_energy : forall g perc x y z, in_grid (tile_dims (dims g) perc) (x, y, z) = true ->
  E (tile g perc) (x, y, z) = (let '(nx, ny, nz) := dims g in E g (x mod nx, y mod ny, z mod nz)).
Proof. exact tile_E. Qed.
Print Assumptions C10_tile_energy.

(* cheapest over all peaks: the selected cost is attained by a peak and no peak with a path is cheaper; nothing is selected iff no peak has a path *)
Theorem C10_perc_best_minimal : forall costs c, best_cost costs = Some c -> In (Some c) costs /\ forall c', In (Some c') costs -> c <= c'.
Proof. exact best_minimal. Qed.
Print Assumptions C10_perc_best_minimal.
Theorem C10_perc_best_none : forall costs, best_cost costs = None <-> forall x, In x costs -> x = None.
Proof. exact best_none. Qed.
Print Assumptions C10_perc_best_none.
