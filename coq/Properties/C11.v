(* C11 -- property theorems only. *)
From Coq Require Import Permutation Sorted.
From GV Require Import Base.Prelude Model.C03 Model.C11 Proofs.C11.

(* every (frame, diffusing atom, other atom) pair is counted in exactly one state, species and distance bin *)
Theorem C11_count_partition : forall ps (names : list sname) (syms bins : list Z),
  NoDup names -> NoDup syms -> NoDup bins ->
  (forall p, In p ps -> In (p_name p) names /\ In (p_sym p) syms /\ In (p_bin p) bins) ->
  zsum (map (fun k => count_key ps (fst (fst k)) (snd (fst k)) (snd k)) (list_prod (list_prod names syms) bins))
  = Z.of_nat (length ps).
Proof. exact count_partition. Qed.
Print Assumptions C11_count_partition.
Theorem C11_pairs_length : forall nlab labels hists symbols edges2 dists,
  (forall fr, In fr dists -> length fr = length hists) ->
  (forall fr row, In fr dists -> In row fr -> length row = length symbols) ->
  length (pairs_of nlab labels hists symbols edges2 dists) = (length dists * length hists * length symbols)%nat.
Proof. exact pairs_length. Qed.
Print Assumptions C11_pairs_length.

(* distance bins: edges[k-1] < d <= edges[k] *)
Theorem C11_bin_right_spec : forall edges2 d2,
  StronglySorted (fun a b => rle a b = true) edges2 -> (forall e, In e edges2 -> 0 < snd e) -> 0 < snd d2 ->
  forall i e, nth_error edges2 i = Some e ->
  (Z.of_nat i < bin_right edges2 d2 -> rlt e d2 = true) /\ (bin_right edges2 d2 <= Z.of_nat i -> rle d2 e = true).
Proof. exact bin_right_spec. Qed.
Print Assumptions C11_bin_right_spec.

(* the integer state code separates the (state, previous, next) label triples *)
Theorem C11_code_injective : forall i j k i' j' k', -1 <= i < 1000 -> -1 <= j < 999 -> -1 <= k < 999 ->
  -1 <= i' < 1000 -> -1 <= j' < 999 -> -1 <= k' < 999 -> code i j k = code i' j' k' -> i = i' /\ j = j' /\ k = k'.
Proof. exact code_injective. Qed.
Print Assumptions C11_code_injective.

(* 'at site X' states contain only frames in which the atom is at a site labelled X *)
Theorem C11_at_state_sound : forall nlab labels hist t x,
  nth_error (names_of_atom nlab labels hist) t = Some (At x) ->
  exists s, nth_error hist t = Some s /\ 0 <= s /\ lab_of labels s = x /\ x <> -1.
Proof. exact at_atom_sound. Qed.
Print Assumptions C11_at_state_sound.
(* 'X->Y' states contain only frames between leaving an X site and reaching a Y site *)
Theorem C11_transit_state_sound : forall nlab i j k x y,
  name_of nlab i j k = Transit x y <-> (i = -1 /\ j = x /\ k = y /\ x <> -1 /\ y <> -1).
Proof. exact transit_state_sound. Qed.
Print Assumptions C11_transit_state_sound.

(* raw species-pair counts depend only on the multiset of distances, hence are symmetric in the two species *)
Theorem C11_hist_counts_perm : forall edges2 ds ds' k, Permutation ds ds' -> hist_counts edges2 ds k = hist_counts edges2 ds' k.
Proof. exact hist_counts_perm. Qed.
Print Assumptions C11_hist_counts_perm.
Theorem C11_hist_counts_transpose : forall edges2 n (m : list (list (Z * Z))) k,
  (forall r, In r m -> length r = n) -> hist_counts edges2 (concat m) k = hist_counts edges2 (concat (transpose n m)) k.
Proof. first [exact hist_counts_transpose | intros; eapply hist_counts_transpose; eauto]. Qed.
Print Assumptions C11_hist_counts_transpose.
Theorem C11_hist_total : forall edges2 ds,
  zsum (map (hist_counts edges2 ds) (zrange 0 (length edges2 - 1))) + hist_counts edges2 ds (-1) = Z.of_nat (length ds).
Proof. exact hist_total. Qed.
Print Assumptions C11_hist_total.
