(* C11 -- placeholder until Proofs/C11.v lands. *)
From GV Require Import Base.Prelude Model.C11.
Theorem C11_at_state : forall nlab i j k, i <> -1 -> name_of nlab i j k = At i.
Proof. intros. unfold name_of. destruct (Z.eqb_spec i (-1)); [contradiction|reflexivity]. Qed.
Print Assumptions C11_at_state.
