(* C06 -- property theorems only.  Series are integer numerators of unwrapped Cartesian
   components; the FFT is modelled by the autocorrelation sum it computes (tie: 1e-9). *)
From GV Require Import Base.Prelude Model.C06 Proofs.C06.

(* the S1 - 2 S2 decomposition used by the code equals the definition: the average over all
   time origins of the squared displacement at that lag (numerators; the tie divides by T - tau) *)
Theorem C06_msd_decomp : forall xs tau, (tau < length xs)%nat -> msd_impl_num xs tau = msd_num xs tau.
Proof. exact msd_decomp. Qed.
Print Assumptions C06_msd_decomp.
Theorem C06_msd3_decomp : forall c tau, (forall xs, In xs c -> (tau < length xs)%nat) -> msd3_impl_num c tau = msd3_num c tau.
Proof. exact msd3_decomp. Qed.
Print Assumptions C06_msd3_decomp.
Theorem C06_s1_is_sum : forall xs tau, (tau < length xs)%nat ->
  s1_num xs tau = zsum (lagged (fun a b => a * a + b * b) xs (skipn tau xs)).
Proof. exact s1_is_sum. Qed.
Print Assumptions C06_s1_is_sum.
Theorem C06_msd_lag0 : forall xs, msd_num xs 0 = 0.
Proof. exact msd_lag0. Qed.
Print Assumptions C06_msd_lag0.
Theorem C06_msd_nonneg : forall xs tau, 0 <= msd_num xs tau.
Proof. exact msd_nonneg. Qed.
Print Assumptions C06_msd_nonneg.
(* the largest lag is the squared final displacement, which the tracer diffusivity uses *)
Theorem C06_msd_last_lag : forall x0 r,
  msd_num (x0 :: r) (length (x0 :: r) - 1) = (last (x0 :: r) x0 - x0) * (last (x0 :: r) x0 - x0).
Proof. exact msd_last_lag. Qed.
Print Assumptions C06_msd_last_lag.
Theorem C06_msd_translate : forall xs k tau, msd_num (map (fun x => x + k) xs) tau = msd_num xs tau.
Proof. exact msd_translate. Qed.
Print Assumptions C06_msd_translate.
Theorem C06_msd_scale : forall xs k tau, msd_num (map (fun x => k * x) xs) tau = k * k * msd_num xs tau.
Proof. exact msd_scale. Qed.
Print Assumptions C06_msd_scale.
