(* C06 -- placeholder until Proofs/C06.v lands. *)
From GV Require Import Base.Prelude Model.C06.
Theorem C06_sq_length : forall xs, length (sq xs) = length xs.
Proof. intros. unfold sq. apply map_length. Qed.
Print Assumptions C06_sq_length.
