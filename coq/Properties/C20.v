(* C20 -- placeholder until Proofs/C20.v lands. *)
From GV Require Import Base.Prelude Model.C20.
Theorem C20_collect_noop : forall f m s, step f m s Collect = (s, ONone).
Proof. reflexivity. Qed.
Print Assumptions C20_collect_noop.
