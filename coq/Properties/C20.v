(* C20 -- property theorems only. *)
From GV Require Import Base.Prelude Model.C20 Proofs.C20.

(* A cached call returns what an uncached recomputation returns, for any interleaving of
   New / Call (any arguments) / Drop / Collect and any cache size (so also across evictions) *)
Theorem C20_transparent : forall f maxsize ops s' outs, run f maxsize init ops = (s', outs) ->
  forall i k args back v hit, nth_error ops i = Some (Call k args back) ->
  nth_error outs i = Some (OVal v hit) -> v = f k args.
Proof. exact transparent. Qed.
Print Assumptions C20_transparent.

(* every hit returns a value computed earlier for the SAME object (uid), never one computed
   for another object -- whatever addresses the allocator handed out *)
Theorem C20_no_leak : forall f maxsize ops s' outs, run f maxsize init ops = (s', outs) ->
  forall i k args back v, nth_error ops i = Some (Call k args back) ->
  nth_error outs i = Some (OVal v true) ->
  exists j, (j < i)%nat /\ exists back', nth_error ops j = Some (Call k args back') /\
            nth_error outs j = Some (OVal v false).
Proof. exact no_leak. Qed.
Print Assumptions C20_no_leak.

Theorem C20_cache_bounded : forall f maxsize ops s' outs,
  run f maxsize init ops = (s', outs) -> (length (cache s') <= maxsize)%nat.
Proof. exact cache_bounded. Qed.
Print Assumptions C20_cache_bounded.

Theorem C20_cache_keys_unique : forall f maxsize ops s' outs, run f maxsize init ops = (s', outs) ->
  NoDup (map (fun e => (e_uid e, e_args e)) (cache s')).
Proof. exact cache_keys_unique. Qed.
Print Assumptions C20_cache_keys_unique.

(* caching does not keep its object alive, provided cached values do not refer to their owner *)
Theorem C20_not_pinned : forall f maxsize ops s' outs,
  (forall k a b, In (Call k a b) ops -> b = false) ->
  run f maxsize init ops = (s', outs) -> forall k, alive s' k = held s' k.
Proof. exact not_pinned. Qed.
Print Assumptions C20_not_pinned.

(* KNOWN FINDING D10: a cached value that refers to its owner keeps it alive
   (Jumps.collective() caches a Collective holding the Jumps object) *)
Theorem C20_pinned_refuted : exists ops s' outs,
  run (fun _ _ => 0) 128 init ops = (s', outs) /\ held s' 0 = false /\ alive s' 0 = true.
Proof. exact pinned_refuted. Qed.
Print Assumptions C20_pinned_refuted.

Theorem C20_call_total : forall f maxsize s k a b, held s k = true ->
  exists v h, snd (step f maxsize s (Call k a b)) = OVal v h.
Proof. exact call_total. Qed.
Print Assumptions C20_call_total.
