(* C13 -- placeholder until Proofs/C13.v lands. *)
From GV Require Import Base.Prelude Model.C13.
Theorem C13_sel_lengths : forall f syms, length (sel_floating f syms) = length syms.
Proof. intros. unfold sel_floating. apply map_length. Qed.
Print Assumptions C13_sel_lengths.
