(* C13 -- property theorems only (one axis; the three axes are independent). *)
From GV Require Import Base.Prelude Model.C01 Model.C13 Proofs.C13.

(* after the correction the mean displacement of the reference species is zero in every frame *)
Theorem C13_mean_corrected_zero : forall (T : nat) (mask : list bool) (disp : list (list Z)),
  Forall (fun c : list Z => length c = T) disp -> length mask = length disp ->
  0 < nsel mask -> vsum (selected mask (correct_all mask disp)) = repeat 0 T.
Proof. exact mean_corrected_zero. Qed.
Print Assumptions C13_mean_corrected_zero.

(* the first frame is unchanged *)
Theorem C13_first_frame_unchanged : forall (D : Z) (mask : list bool) (atoms : list (list Z)) (c : list Z),
  In c (correct_all mask (map (disp_of D) atoms)) -> hd 0 c = 0.
Proof. exact pipeline_first_frame. Qed.
Print Assumptions C13_first_frame_unchanged.

(* applying the correction again changes nothing (up to the integer scale n) *)
Theorem C13_idempotent : forall (T : nat) (mask : list bool) (disp : list (list Z)),
  Forall (fun c : list Z => length c = T) disp -> length mask = length disp ->
  let c := correct_all mask disp in
  correct_all mask c = map (map (fun x : Z => nsel mask * x)) c.
Proof. exact idempotent. Qed.
Print Assumptions C13_idempotent.

(* an arbitrary rigid, time-dependent translation of all atoms yields the same corrected motion *)
Theorem C13_rigid_translation_invariant : forall (T : nat) (mask : list bool) (disp : list (list Z)),
  Forall (fun c : list Z => length c = T) disp -> length mask = length disp ->
  forall rho : list Z, length rho = T ->
  correct_all mask (map (fun d : list Z => zip_with Z.add d rho) disp) = correct_all mask disp.
Proof. exact rigid_translation_invariant. Qed.
Print Assumptions C13_rigid_translation_invariant.

(* naming the floating species is equivalent to naming all other species as fixed *)
Theorem C13_floating_equiv_fixed : forall floating syms all : list Z, (forall s : Z, In s syms -> In s all) ->
  sel_floating floating syms = sel_fixed (filter (fun s : Z => negb (mem s floating)) all) syms.
Proof. exact floating_equiv_fixed. Qed.
Print Assumptions C13_floating_equiv_fixed.

Theorem C13_zero_drift_unchanged : forall (T : nat) (mask : list bool) (disp : list (list Z)),
  Forall (fun c : list Z => length c = T) disp -> drift_n mask disp = repeat 0 T ->
  correct_all mask disp = map (map (fun x : Z => nsel mask * x)) disp.
Proof. exact zero_drift_unchanged. Qed.
Print Assumptions C13_zero_drift_unchanged.

(* exactly the reference-frame motion is removed: the same vector is subtracted from every atom in every frame, so the motion of any two
   atoms relative to each other is unchanged (numerators over n * D on the left, over D on the right) *)
Theorem C13_relative_motion_preserved : forall (n : Z) (dn d1 d2 : list Z) (t : nat),
  (t < length d1)%nat -> (t < length d2)%nat -> (t < length dn)%nat ->
  nth t (corrected_n n dn d1) 0 - nth t (corrected_n n dn d2) 0 = n * (nth t d1 0 - nth t d2 0).
Proof. exact relative_motion_preserved. Qed.
Print Assumptions C13_relative_motion_preserved.
