(* C02 -- property theorems only.  The lattice enters only through its Gram matrix; the
   minimum-image distance computed by the window search is the TRUE minimum over all
   lattice translations for every lattice passing the checked integer condition window_ok. *)
From GV Require Import Base.Prelude Model.C01 Model.Geom Model.C02 Proofs.Geom Proofs.C02.

(* the executable distance is the true minimum-image distance *)
Theorem C02_window_sufficient : forall M K D f, 0 < D -> 0 <= K -> window_ok M K = true ->
  is_min_image D (gram_of M) f (min_image_d2 D (gram_of M) K f).
Proof. exact window_sufficient. Qed.
Print Assumptions C02_window_sufficient.

(* an atom is assigned a site exactly when that site's sphere contains it; "no site" when none does *)
Theorem C02_admissible_spec : forall D G K f ss rs p k0 k, In k (adm_from D G K f k0 ss rs p) <->
  exists i s r, nth_error ss i = Some s /\ nth_error rs i = Some r /\ k = k0 + Z.of_nat i /\ within D G K p s r f = true.
Proof. exact adm_from_spec. Qed.
Print Assumptions C02_admissible_spec.
Theorem C02_state_sound : forall adm st, ok_state adm st = true -> st <> -99 ->
  (adm = [] /\ st = -1) \/ (adm <> [] /\ In st adm).
Proof. exact ok_state_sound. Qed.
Print Assumptions C02_state_sound.

(* inner sites: scaling the radius by a fraction in (0,1] only shrinks the spheres, so with a
   unique outer assignment the inner site is 'none' or the outer site *)
Theorem C02_inner_subset : forall D M K f k0 ss rs p, 0 <= K ->
  (forall r, In r rs -> 0 < snd r /\ 0 <= fst r) -> 0 < fst f <= snd f ->
  forall k, In k (adm_from D (gram_of M) K f k0 ss rs p) -> In k (adm_from D (gram_of M) K (1,1) k0 ss rs p).
Proof. exact inner_subset. Qed.
Print Assumptions C02_inner_subset.
Theorem C02_inner_is_none_or_outer : forall adm_i adm_o i o,
  (forall k, In k adm_i -> In k adm_o) -> (forall a b, In a adm_o -> In b adm_o -> a = b) ->
  ok_state adm_i i = true -> ok_state adm_o o = true -> i <> -99 -> o <> -99 -> i = -1 \/ i = o.
Proof. exact inner_is_none_or_outer. Qed.
Print Assumptions C02_inner_is_none_or_outer.

(* automatic radius: if 2 r does not exceed the smallest site separation, no point lies in two spheres *)
Theorem C02_spheres_disjoint_unique : forall D M K sites r p s t, 0 < D -> 0 <= K -> window_ok M K = true ->
  spheres_disjoint D (gram_of M) K sites r = true -> 0 < snd r -> In s sites -> In t sites ->
  within D (gram_of M) K p s r (1,1) = true -> within D (gram_of M) K p t r (1,1) = true ->
  qf (gram_of M) (vsub3 s t) = 0.
Proof. exact spheres_disjoint_unique. Qed.
Print Assumptions C02_spheres_disjoint_unique.

(* per-label radii: the repaired group-local -> global index map; the rank-based map it replaced was wrong (D3) *)
Theorem C02_remap_direct_correct : forall key a i x, nth_error a i = Some x -> 0 <= x ->
  nth_error (remap_direct key a) i = Some (znth (-7) key x).
Proof. exact remap_direct_correct. Qed.
Print Assumptions C02_remap_direct_correct.
Theorem C02_remap_rank_refuted : exists key palette a,
  Sorted.StronglySorted Z.lt palette /\ (forall x, In x palette <-> In x a) /\
  (forall x, In x a -> 0 <= x < Z.of_nat (length key)) /\ remap_rank key palette a <> remap_direct key a.
Proof. exact remap_rank_refuted. Qed.
Print Assumptions C02_remap_rank_refuted.
