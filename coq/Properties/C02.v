(* C02 -- placeholder until Proofs/C02.v lands. *)
From GV Require Import Base.Prelude Model.C02.
Theorem C02_remap_direct_length : forall key a, length (remap_direct key a) = length a.
Proof. intros. unfold remap_direct. apply map_length. Qed.
Print Assumptions C02_remap_direct_length.
