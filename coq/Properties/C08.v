(* C08 -- placeholder until Proofs/C08.v lands. *)
From GV Require Import Base.Prelude Model.C08.
Theorem C08_roundtrip_small : roundtrip_upto 64 = true.
Proof. vm_compute. reflexivity. Qed.
Print Assumptions C08_roundtrip_small.
