(* C08 -- property theorems only. *)
From GV Require Import Base.Prelude Model.C08 Proofs.C08.

(* every sample of every frame is counted in exactly one voxel: the voxel sum is frames x atoms *)
Theorem C08_volume_sum : forall D nx ny nz samples, 0 < D -> 0 < nx -> 0 < ny -> 0 < nz ->
  (forall p, In p samples -> let '(x,y,z) := p in 0 <= x < D /\ 0 <= y < D /\ 0 <= z < D) ->
  zsum (volume D (nx,ny,nz) samples) = Z.of_nat (length samples).
Proof. exact volume_sum. Qed.
Print Assumptions C08_volume_sum.

(* ... namely the voxel floor(fractional coordinate x grid size) *)
Theorem C08_volume_entry : forall D nx ny nz samples i j k, 0 <= i < nx -> 0 <= j < ny -> 0 <= k < nz ->
  znth 0 (volume D (nx,ny,nz) samples) ((i*ny + j)*nz + k) = density D (nx,ny,nz) samples (i,j,k).
Proof. exact volume_entry. Qed.
Print Assumptions C08_volume_entry.
Theorem C08_voxel_range : forall D n x, 0 < D -> 0 < n -> 0 <= x < D -> 0 <= voxel D n x < n.
Proof. exact voxel_range. Qed.
Print Assumptions C08_voxel_range.
(* binning on open-left edges k/n is the same as the floor (exact arithmetic) *)
Theorem C08_digitize_is_floor : forall D n x, 0 < D -> 0 < n -> 0 <= x < D -> digitize D n x = voxel D n x.
Proof. exact digitize_is_floor. Qed.
Print Assumptions C08_digitize_is_floor.

(* voxel edge length is at least the requested resolution and less than twice it *)
Theorem C08_edge_bounds : forall L r, 0 < r -> r <= L ->
  let n := ngrid L r in 1 <= n /\ r * n <= L /\ L < 2 * r * n.
Proof. exact edge_bounds. Qed.
Print Assumptions C08_edge_bounds.

(* voxel -> fractional centre -> voxel returns the index: exactly, and in binary64 for every
   index of every grid size up to 4096 (kernel-evaluated sweep; the bound is in the statement) *)
Theorem C08_roundtrip_exact : forall n i, 0 < n -> 0 <= i < n -> voxel_of_centre n i = i.
Proof. exact roundtrip_Q. Qed.
Print Assumptions C08_roundtrip_exact.
Theorem C08_roundtrip_float : forall n i, 1 <= n <= 4096 -> 0 <= i < n -> roundtrip_ok n i = true.
Proof. exact roundtrip_float. Qed.
Print Assumptions C08_roundtrip_float.

(* shifting a coordinate by k voxel widths rolls its voxel index by k (used by C07) *)
Theorem C08_volume_roll : forall D n q x k, n * q = D -> 0 < n -> 0 < q -> 0 <= x < D ->
  voxel D n ((x + k * q) mod D) = (voxel D n x + k) mod n.
Proof. exact volume_roll. Qed.
Print Assumptions C08_volume_roll.
