(* C05 -- property theorems only. *)
From GV Require Import Base.Prelude Model.C03 Model.C04 Model.C05 Proofs.C05.

(* Entry (i,j) of the dense matrix built by fancy-index assignment equals the number of
   recorded moves i -> j, provided every row addresses real sites. *)
Theorem C05_matrix_counts : forall n rows i j,
  (forall p, In p rows -> in_range n p = true) ->
  entry n rows i j = pcount (i, j) rows.
Proof. exact entry_in_range. Qed.
Print Assumptions C05_matrix_counts.

Theorem C05_matrix_sum : forall n rows,
  (forall p, In p rows -> in_range (Z.of_nat n) p = true) ->
  msum n (entry (Z.of_nat n) rows) = Z.of_nat (length rows).
Proof. exact matrix_sum. Qed.
Print Assumptions C05_matrix_sum.

Theorem C05_diag_zero : forall n rows i,
  (forall p, In p rows -> in_range n p = true) ->
  (forall p, In p rows -> fst p <> snd p) ->
  entry n rows i i = 0.
Proof. exact diag_zero. Qed.
Print Assumptions C05_diag_zero.

(* the jump table never contains start = destination (final filter of the scan) *)
Theorem C05_jumps_distinct : forall mr es j, In j (scan mr es) -> j_from j <> j_to j.
Proof.
  intros mr es j H. unfold scan in H. apply filter_In in H. destruct H as [_ H].
  apply negb_true_iff, Z.eqb_neq in H. exact H.
Qed.
Print Assumptions C05_jumps_distinct.

Theorem C05_edges_are_support : forall p rows, 0 < pcount p rows <-> In p rows.
Proof. exact support_is_edge_set. Qed.
Print Assumptions C05_edges_are_support.

Theorem C05_counter_aggregates_matrix : forall n labels rows la lb,
  (forall p, In p rows -> in_range (Z.of_nat n) p = true) ->
  msum n (fun i j => (if (lab labels i =? la) && (lab labels j =? lb) then 1 else 0)
                     * entry (Z.of_nat n) rows i j)
  = counter labels rows la lb.
Proof. exact counter_aggregates_matrix. Qed.
Print Assumptions C05_counter_aggregates_matrix.

Theorem C05_counter_sum : forall labels rows (L : list Z),
  NoDup L -> (forall p, In p rows -> In (lab labels (fst p)) L /\ In (lab labels (snd p)) L) ->
  zsum (map (fun q => counter labels rows (fst q) (snd q)) (list_prod L L)) = Z.of_nat (length rows).
Proof. exact counter_sum. Qed.
Print Assumptions C05_counter_sum.

(* jump diffusivity: sum(pdist^2 * matrix) is the sum over jumps of the squared distance *)
Theorem C05_diffusivity_sum : forall n rows (w : Z -> Z -> Z),
  (forall p, In p rows -> in_range (Z.of_nat n) p = true) ->
  msum n (fun i j => w i j * entry (Z.of_nat n) rows i j) = rows_wsum w rows.
Proof. exact weighted_sum_identity. Qed.
Print Assumptions C05_diffusivity_sum.

Theorem C05_occupancy_sum : forall n states,
  (forall col x, In col states -> In x col -> -1 <= x < Z.of_nat n) ->
  zsum (map (occ_count states) (zrange 0 n)) = visited_count states.
Proof. exact occupancy_sum. Qed.
Print Assumptions C05_occupancy_sum.

(* occupancy as the code counts it (np.unique over the flattened table) is the per-site count *)
Theorem C05_occupancy_flat : forall states i, occ_flat states i = occ_count states i.
Proof. exact occ_flat_is_occ_count. Qed.
Print Assumptions C05_occupancy_flat.

(* atom_locations / occupancy_by_site_type: the per-label sums add up to the visited (frame, atom) entries *)
Theorem C05_label_total : forall labels states n (L : list Z),
  NoDup L -> (forall k, 0 <= k < Z.of_nat n -> In (lab labels k) L) ->
  (forall col x, In col states -> In x col -> -1 <= x < Z.of_nat n) ->
  zsum (map (label_num labels states n) L) = visited_count states.
Proof. exact label_total. Qed.
Print Assumptions C05_label_total.

Theorem C05_label_sites_total : forall labels n (L : list Z),
  NoDup L -> (forall k, 0 <= k < Z.of_nat n -> In (lab labels k) L) ->
  zsum (map (label_sites labels n) L) = Z.of_nat n.
Proof. exact label_sites_total. Qed.
Print Assumptions C05_label_sites_total.

(* KNOWN FINDING D6: for the event table (which contains "no site" = -1) the hypothesis
   of C05_matrix_counts fails and so does its conclusion: the current code counts a move
   to "no site" in the last site's column. *)
Theorem C05_nosite_folded_refuted : exists n rows i j, entry n rows i j <> pcount (i, j) rows.
Proof. exact nosite_folded_refuted. Qed.
Print Assumptions C05_nosite_folded_refuted.

Example C05_example :
  matrix 3 [(0, 1); (1, 0); (0, 1); (2, 0)] = [[0; 2; 0]; [1; 0; 0]; [1; 0; 0]].
Proof. vm_compute. reflexivity. Qed.
