(* C03 -- property theorems only.  Each is closed by [exact] of a lemma from Proofs/C03.v. *)
From GV Require Import Base.Prelude Model.C03 Proofs.C03.

(* The numpy formulation used by the code (roll / nonzero / drop wrap-around / unique)
   computes exactly the change log of the (site, inner-site) history of an atom. *)
Theorem C03_impl_is_change_log : forall a o i, length o = length i ->
  events_atom a o i = events_from a 0 o i.
Proof. exact events_atom_eq_spec. Qed.
Print Assumptions C03_impl_is_change_log.

(* no row that is not a real change; rows carry atom, before, after and t *)
Theorem C03_rows_sound : forall o i a t r, In r (events_from a t o i) ->
  (r_s r <> r_d r \/ r_si r <> r_di r) /\
  nth_error o (Z.to_nat (r_t r - t)) = Some (r_s r) /\
  nth_error o (S (Z.to_nat (r_t r - t))) = Some (r_d r) /\
  nth_error i (Z.to_nat (r_t r - t)) = Some (r_si r) /\
  nth_error i (S (Z.to_nat (r_t r - t))) = Some (r_di r).
Proof. exact rows_sound. Qed.
Print Assumptions C03_rows_sound.

Theorem C03_rows_atom : forall o i a t r, In r (events_from a t o i) -> r_atom r = a.
Proof. exact ev_atom. Qed.
Print Assumptions C03_rows_atom.

(* a row for every changing frame *)
Theorem C03_rows_complete : forall o i a t k, length o = length i ->
  chg o k || chg i k = true ->
  exists r, In r (events_from a t o i) /\ r_t r = t + Z.of_nat k.
Proof. exact rows_complete. Qed.
Print Assumptions C03_rows_complete.

(* ... and exactly one: times are strictly increasing along the table *)
Theorem C03_rows_once : forall o i a t r1 r2 l1 l2,
  events_from a t o i = l1 ++ r1 :: l2 -> In r2 l2 -> r_t r1 < r_t r2.
Proof. exact ev_times_increasing. Qed.
Print Assumptions C03_rows_once.

(* replaying the rows from the first-frame state reconstructs both histories *)
Theorem C03_replay_reconstructs : forall o i x u a t,
  length o = length i ->
  replay (S (length o)) t x u (events_from a t (x :: o) (u :: i)) = combine (x :: o) (u :: i).
Proof. exact replay_reconstructs. Qed.
Print Assumptions C03_replay_reconstructs.

(* previous-site / next-site views *)
Theorem C03_states_prev : forall l, ffill l = ffill_spec (-1) l.
Proof. exact ffill_correct. Qed.
Print Assumptions C03_states_prev.

Theorem C03_states_next : forall l, bfill l = rev (ffill_spec (-1) (rev l)).
Proof. exact bfill_correct. Qed.
Print Assumptions C03_states_next.

Theorem C03_fill_meaning : forall l cur k v,
  nth_error (ffill_spec cur l) k = Some v ->
  (exists j x, (j <= k)%nat /\ nth_error l j = Some x /\ x <> -1 /\ v = x /\
               forall m y, (j < m <= k)%nat -> nth_error l m = Some y -> y = -1)
  \/ (v = cur /\ forall m y, (m <= k)%nat -> nth_error l m = Some y -> y = -1).
Proof. exact ffill_spec_meaning. Qed.
Print Assumptions C03_fill_meaning.

(* non-vacuity: a concrete history with an inner-only change, a direct move and a
   change at the first and last frame *)
Example C03_example :
  events_atom 7 [0; 0; 1; -1; 2] [0; -1; 1; -1; -1]
  = [ {| r_atom := 7; r_s := 0; r_d := 0; r_si := 0; r_di := -1; r_t := 0 |};
      {| r_atom := 7; r_s := 0; r_d := 1; r_si := -1; r_di := 1; r_t := 1 |};
      {| r_atom := 7; r_s := 1; r_d := -1; r_si := 1; r_di := -1; r_t := 2 |};
      {| r_atom := 7; r_s := -1; r_d := 2; r_si := -1; r_di := -1; r_t := 3 |} ].
Proof. vm_compute. reflexivity. Qed.
