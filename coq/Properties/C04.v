(* C04 -- property theorems only. *)
From GV Require Import Base.Prelude Model.C03 Model.C04 Proofs.C04.

(* Default settings (inner fraction 1, i.e. inner history = outer history; minimal residence 0):
   the jumps are exactly the consecutive pairs of distinct visited sites. *)
Theorem C04_default_exact : forall n o, scan 0 (events_from n 0 o o) = default_jumps n o.
Proof. exact default_exact. Qed.
Print Assumptions C04_default_exact.

(* non-vacuity: leaving and returning to the same site is not a jump; time at no site is ignored *)
Example C04_example :
  default_jumps 3 [0; -1; 0; -1; -1; 1; 1; 2]
  = [ {| j_atom := 3; j_from := 0; j_to := 1; j_start := 2; j_stop := 5 |};
      {| j_atom := 3; j_from := 1; j_to := 2; j_start := 6; j_stop := 7 |} ].
Proof. vm_compute. reflexivity. Qed.

From GV Require Import Proofs.C04b.

(* the specification is what the English says: origin = site left, destination = next
   different site reached, start = last frame at the origin, stop = first frame at the
   destination, only "no site" in between *)
Theorem C04_default_sound : forall n o j, In j (default_jumps n o) ->
  j_atom j = n /\ j_from j <> -1 /\ j_to j <> -1 /\ j_from j <> j_to j /\ 0 <= j_start j < j_stop j /\
  nth_error o (Z.to_nat (j_start j)) = Some (j_from j) /\ nth_error o (Z.to_nat (j_stop j)) = Some (j_to j) /\
  (forall m, j_start j < m < j_stop j -> nth_error o (Z.to_nat m) = Some (-1)).
Proof. exact default_sound. Qed.
Print Assumptions C04_default_sound.

Theorem C04_default_complete : forall n o s e a b, 0 <= s < e ->
  nth_error o (Z.to_nat s) = Some a -> nth_error o (Z.to_nat e) = Some b ->
  a <> -1 -> b <> -1 -> a <> b -> (forall m, s < m < e -> nth_error o (Z.to_nat m) = Some (-1)) ->
  In {| j_atom := n; j_from := a; j_to := b; j_start := s; j_stop := e |} (default_jumps n o).
Proof. exact default_complete. Qed.
Print Assumptions C04_default_complete.

(* inner fraction < 1 and/or minimal residence > 0: every reported jump is a default jump
   (same atom, origin, destination, start time) ... *)
Theorem C04_strict_subset : forall mr n o i, inner_ok o i = true ->
  keys_subset (scan mr (events_from n 0 o i)) (default_jumps n o) = true.
Proof. exact strict_subset. Qed.
Print Assumptions C04_strict_subset.

(* ... and is consistent with the recorded states *)
Theorem C04_scan_consistent : forall mr n o i j, inner_ok o i = true ->
  In j (scan mr (events_from n 0 o i)) ->
  nth_error o (Z.to_nat (j_start j)) = Some (j_from j) /\
  nth_error o (Z.to_nat (j_stop j)) = Some (j_to j) /\ 0 <= j_start j < j_stop j.
Proof. exact scan_consistent. Qed.
Print Assumptions C04_scan_consistent.

(* raising the minimal residence never adds jumps *)
Theorem C04_residence_monotone : forall mr mr' n o i, mr <= mr' ->
  jumps_subset (scan mr' (events_from n 0 o i)) (scan mr (events_from n 0 o i)) = true.
Proof. exact residence_monotone. Qed.
Print Assumptions C04_residence_monotone.
