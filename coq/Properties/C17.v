(* C17 -- property theorems only.  Hypotheses: the lattice passes window_ok (the distance
   search is the true minimum image) and the radius is at most half of every perpendicular
   width of the cell (radius_ok); symmetry operations preserve the metric (isometry),
   checked per case in the tie for the operations exported from pymatgen. *)
From GV Require Import Base.Prelude Model.C01 Model.Geom Model.C17 Proofs.Geom Proofs.C17.

(* every collected point lies within the radius of the site centre *)
Theorem C17_points_within_radius : forall M r2 D K, radius_ok M r2 D = true -> 0 < D -> 0 < snd r2 ->
  window_ok M K = true -> 0 <= K ->
  forall ops site positions q, (forall ow, In ow ops -> isometry (gram_of M) (snd ow) = true) ->
  In q (points D (gram_of M) K r2 ops site positions) -> qf (gram_of M) q * snd r2 < fst r2.
Proof. first [exact points_within_radius | intros; eapply points_within_radius; eauto]. Qed.
Print Assumptions C17_points_within_radius.

(* the number of points is the number of (operation, position) pairs within the radius of the equivalent site *)
Theorem C17_points_count : forall D G K r2 ops site positions,
  length (points D G K r2 ops site positions) = n_pairs D G K r2 ops site positions.
Proof. exact points_count. Qed.
Print Assumptions C17_points_count.

(* each point is the inverse-operation image of its source: same distance to the centre as
   the source's minimum-image distance to the equivalent site *)
Theorem C17_point_distance_preserved : forall M r2 D K, radius_ok M r2 D = true -> 0 < D -> 0 < snd r2 ->
  window_ok M K = true -> 0 <= K ->
  forall o Winv site positions q, isometry (gram_of M) Winv = true ->
  In q (points_op D (gram_of M) K r2 o Winv site positions) ->
  exists p, In p positions /\ selected D (gram_of M) K r2 (apply_op o site) p = true /\
    q = mulv Winv (reimage D (vsub3 p (apply_op o site))) /\
    qf (gram_of M) q = min_image_d2 D (gram_of M) K (vsub3 p (apply_op o site)).
Proof. first [exact point_distance_preserved | intros; eapply point_distance_preserved; eauto]. Qed.
Print Assumptions C17_point_distance_preserved.
Theorem C17_point_is_inverse_image : forall D o Winv site p, is_inverse (W o) Winv = true ->
  let sym := apply_op o site in let q := mulv Winv (reimage D (vsub3 p sym)) in
  exists n, apply_op o (vadd3 site q) = vadd3 p (vscale3 D n).
Proof. exact point_is_inverse_image. Qed.
Print Assumptions C17_point_is_inverse_image.

(* component-wise re-imaging is the minimum image below half the perpendicular width *)
Theorem C17_reimage_is_min_image : forall M r2 D, radius_ok M r2 D = true -> 0 < D -> 0 < snd r2 ->
  forall f d2, is_min_image D (gram_of M) f d2 -> d2 * snd r2 < fst r2 -> qf (gram_of M) (reimage D f) = d2.
Proof. exact reimage_is_min_image. Qed.
Print Assumptions C17_reimage_is_min_image.

(* folding a supercell trajectory into the unit cell preserves positions modulo the unit cell *)
Theorem C17_fold_supercell : forall D s x, 0 < s -> (exists q, D = s * q /\ 0 < q) ->
  (exists k, fold D s x = s * x + k * D) /\ 0 <= fold D s x < D.
Proof. exact fold_congr_range. Qed.
Print Assumptions C17_fold_supercell.

(* the code before the repair (re-imaging by at most one cell) violated the first theorem: defect D14 *)
Theorem C17_reimage_old_refuted : exists D M K r2 p sym,
  (radius_ok M r2 D = true /\ 0 < D /\ 0 < snd r2 /\ window_ok M K = true /\ 0 <= K /\
   selected D (gram_of M) K r2 sym p = true) /\
  ~ (qf (gram_of M) (reimage_old D (vsub3 p sym)) * snd r2 < fst r2).
Proof. exact reimage_old_refuted. Qed.
Print Assumptions C17_reimage_old_refuted.

(* the computation as the code writes it (re-image the position, apply the inverse operation, subtract the site) gives the model's points
   (inverse rotation of the re-imaged difference), for every list of operations paired with their inverses *)
Theorem C17_literal_points : forall D G K r2 ops site positions,
  (forall oi, In oi ops -> inverse_of (fst oi) (snd oi)) ->
  points_literal D G K r2 ops site positions = points D G K r2 (map (fun oi => (fst oi, W (snd oi))) ops) site positions.
Proof. exact points_literal_is_model. Qed.
Print Assumptions C17_literal_points.
