(* Shared prelude: imports, arithmetic settings, small list utilities. *)
From Coq Require Export ZArith List Bool Lia ZifyBool.
Export ListNotations.
Open Scope Z_scope.

Ltac Zify.zify_post_hook ::= Z.to_euclidean_division_equations.

Global Arguments Z.eqb : simpl never.
Global Arguments Z.add : simpl never.
Global Arguments Z.sub : simpl never.
Global Arguments Z.mul : simpl never.
Global Arguments Z.ltb : simpl never.
Global Arguments Z.leb : simpl never.

Lemma eqb_neq x y : x <> y -> (x =? y) = false.
Proof. intro H. apply Z.eqb_neq. exact H. Qed.

Lemma filter_id {A} (p : A -> bool) l : (forall x, In x l -> p x = true) -> filter p l = l.
Proof.
  induction l as [|x l IH]; intros H; cbn; [reflexivity|].
  rewrite (H x (or_introl eq_refl)). f_equal. apply IH. intros y Hy. apply H. right. exact Hy.
Qed.

(* Z-indexed access with a default, used by the executable models *)
Definition znth {A} (d : A) (l : list A) (i : Z) : A :=
  if i <? 0 then d else nth (Z.to_nat i) l d.

Fixpoint zsum (l : list Z) : Z := match l with [] => 0 | x :: r => x + zsum r end.

Lemma zsum_app a b : zsum (a ++ b) = zsum a + zsum b.
Proof. induction a as [|x a IH]; cbn [zsum app]; lia. Qed.

Fixpoint list_eqb {A} (eqb : A -> A -> bool) (a b : list A) : bool :=
  match a, b with
  | [], [] => true
  | x :: a', y :: b' => eqb x y && list_eqb eqb a' b'
  | _, _ => false
  end.

Lemma list_eqb_Z_eq a b : list_eqb Z.eqb a b = true <-> a = b.
Proof.
  revert b. induction a as [|x a IH]; intros [|y b]; cbn; split; intro H; try congruence; try reflexivity.
  - apply andb_true_iff in H. destruct H as [H1 H2]. apply Z.eqb_eq in H1. apply IH in H2. congruence.
  - inversion H; subst. rewrite Z.eqb_refl. cbn. apply IH. reflexivity.
Qed.

(* indices (as nat) of the elements of a list of booleans that are false *)
Fixpoint false_idx_from (n : nat) (l : list bool) : list nat :=
  match l with
  | [] => []
  | b :: r => (if b then [] else [n]) ++ false_idx_from (S n) r
  end.
Definition false_idx := false_idx_from 0.
