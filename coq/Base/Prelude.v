(* Shared prelude: imports, arithmetic settings, small list utilities. *)
From Coq Require Export ZArith List Bool Lia ZifyBool.
Export ListNotations.
Open Scope Z_scope.

Ltac Zify.zify_post_hook ::= Z.to_euclidean_division_equations.

Global Arguments Z.eqb : simpl never.
Global Arguments Z.add : simpl never.
Global Arguments Z.sub : simpl never.
Global Arguments Z.mul : simpl never.
Global Arguments Z.ltb : simpl never.
Global Arguments Z.leb : simpl never.

Lemma eqb_neq x y : x <> y -> (x =? y) = false.
Proof. intro H. apply Z.eqb_neq. exact H. Qed.

Lemma filter_id {A} (p : A -> bool) l : (forall x, In x l -> p x = true) -> filter p l = l.
Proof.
  induction l as [|x l IH]; intros H; cbn; [reflexivity|].
  rewrite (H x (or_introl eq_refl)). f_equal. apply IH. intros y Hy. apply H. right. exact Hy.
Qed.

(* Z-indexed access with a default, used by the executable models *)
Definition znth {A} (d : A) (l : list A) (i : Z) : A :=
  if i <? 0 then d else nth (Z.to_nat i) l d.

Fixpoint zsum (l : list Z) : Z := match l with [] => 0 | x :: r => x + zsum r end.

Lemma zsum_app a b : zsum (a ++ b) = zsum a + zsum b.
Proof. induction a as [|x a IH]; cbn [zsum app]; lia. Qed.

Fixpoint list_eqb {A} (eqb : A -> A -> bool) (a b : list A) : bool :=
  match a, b with
  | [], [] => true
  | x :: a', y :: b' => eqb x y && list_eqb eqb a' b'
  | _, _ => false
  end.

Lemma list_eqb_Z_eq a b : list_eqb Z.eqb a b = true <-> a = b.
Proof.
  revert b. induction a as [|x a IH]; intros [|y b]; cbn; split; intro H; try congruence; try reflexivity.
  - apply andb_true_iff in H. destruct H as [H1 H2]. apply Z.eqb_eq in H1. apply IH in H2. congruence.
  - inversion H; subst. rewrite Z.eqb_refl. cbn. apply IH. reflexivity.
Qed.

(* indices (as nat) of the elements of a list of booleans that are false *)
Fixpoint false_idx_from (n : nat) (l : list bool) : list nat :=
  match l with
  | [] => []
  | b :: r => (if b then [] else [n]) ++ false_idx_from (S n) r
  end.
Definition false_idx := false_idx_from 0.

(* |a/b - c/d| <= (tn/td) * |c/d|  for b, d, td > 0: float outputs of the implementation
   (passed exactly as dyadic rationals a/b) against the model's exact rational c/d *)
Definition qclose (a b c d tn td : Z) : bool :=
  Z.abs (a * d - c * b) * td <=? tn * Z.abs c * b.

Definition zip_with {A B C} (f : A -> B -> C) := fix zw (a : list A) (b : list B) : list C :=
  match a, b with x :: a', y :: b' => f x y :: zw a' b' | _, _ => [] end.

Fixpoint zrange (t : Z) (n : nat) : list Z :=
  match n with O => [] | S n' => t :: zrange (t + 1) n' end.

Lemma zrange_S t n : zrange t (S n) = t :: zrange (t + 1) n.
Proof. reflexivity. Qed.

Lemma zrange_in : forall n t x, In x (zrange t n) <-> t <= x < t + Z.of_nat n.
Proof.
  induction n as [|n IH]; intros t x; split; intro H.
  - contradiction.
  - cbn in H. lia.
  - destruct H as [<-|H]; [lia|]. apply IH in H. lia.
  - destruct (Z.eq_dec x t) as [->|Hne]; [left; reflexivity|]. right. apply IH. lia.
Qed.

Lemma zrange_NoDup : forall n t, NoDup (zrange t n).
Proof.
  induction n as [|n IH]; intros t; [constructor|].
  constructor; [|apply IH]. intro H. apply zrange_in in H. lia.
Qed.

Fixpoint forall2b {A B} (f : A -> B -> bool) (a : list A) (b : list B) : bool :=
  match a, b with
  | [], [] => true
  | x :: a', y :: b' => f x y && forall2b f a' b'
  | _, _ => false
  end.

(* |a/b - c/d| <= tn/td (absolute), b, d, td > 0 *)
Definition qclose_abs (a b c d tn td : Z) : bool :=
  Z.abs (a * d - c * b) * td <=? tn * b * d.
