(* Correspondence check for C20: the model's trace against the real weak_lru_cache driven
   on an instrumented class (wrapped method returns uid * 1000 + args). *)
From GV Require Export Base.Prelude Model.C20.

Definition fval (k : nat) (a : Z) : Z := Z.of_nat k * 1000 + a.

Definition out_eqb (a b : out) : bool :=
  match a, b with
  | ONone, ONone => true
  | OVal v h, OVal w g => (v =? w) && Bool.eqb h g
  | _, _ => false
  end.

Definition case := (nat * list op * list (out * list bool))%type.

Definition check (c : case) : bool :=
  let '(maxsize, ops, tr) := c in
  list_eqb (fun x y => out_eqb (fst x) (fst y) && list_eqb Bool.eqb (snd x) (snd y))
           (trace fval maxsize init ops) tr.

Definition bad (cs : list case) : list nat := false_idx (map check cs).
