(* Correspondence check for C08. *)
From GV Require Export Base.Prelude Model.C08.

Record case := {
  D : Z;
  dims : Z * Z * Z;                          (* implementation's Volume.dims *)
  Lr : list (Z * Z);                         (* per axis: cell length and resolution over a common denominator *)
  samples : list (Z * Z * Z);                (* wrapped positions, numerators over D *)
  data : list ((Z * Z * Z) * Z);             (* non-zero entries of Volume.data in C order: (voxel, count) *)
  f2v : list ((Z * Z * Z) * (Z * Z * Z));    (* frac_coords_to_voxel on sample coordinates *)
  v2f : list (Z * Z * (Z * Z));              (* (n, i, voxel_to_frac_coords as exact dyadic) *)
  vsize : list (Z * Z * (Z * Z))             (* (L over lden, lden, voxel_size as exact dyadic) per axis *)
}.

Fixpoint increasing (l : list Z) : bool :=
  match l with a :: ((b :: _) as r) => (a <? b) && increasing r | _ => true end.

Definition check (c : case) : bool :=
  let '(nx, ny, nz) := dims c in
  list_eqb Z.eqb (map (fun p => ngrid (fst p) (snd p)) (Lr c)) [nx; ny; nz]
  (* sparse comparison: listed entries are right, strictly increasing in C order (distinct),
     positive, and add up to the number of samples, hence every other voxel holds 0
     (Proofs/C08 volume_sum) *)
  && forallb (fun e => (density (D c) (dims c) (samples c) (fst e) =? snd e) && (0 <? snd e)) (data c)
  && increasing (map (fun e => let '(i, j, k) := fst e in (i * ny + j) * nz + k) (data c))
  && (zsum (map snd (data c)) =? Z.of_nat (length (samples c)))
  && forallb (fun p => t3_eqb (vox3 (D c) (dims c) (fst p)) (snd p)) (f2v c)
  && forallb (fun q => let '(n, i, (a, b)) := q in qclose a b (centre_num i) (2 * n) 1 1000000000000000) (v2f c)
  && forall2b (fun q n => let '(l, lden, (a, b)) := q in qclose a b l (lden * n) 1 1000000000000)
              (vsize c) [nx; ny; nz].

Definition bad (cs : list case) : list nat := false_idx (map check cs).
