(* Correspondence check for C16: event sequences (Load / Crash k / Garbage / Remove) run on
   the real loaders and on the model instance.  Arguments are (name id, trajectory id): the
   harness assigns the name id from the cache-name arguments found by the translator in
   the current source and the trajectory id from fresh parses. *)
From GV Require Export Base.Prelude Model.C16.

Definition ev := event args2.
Definition L (n t : Z) : ev := Load args2 (n, t).
Definition Cr (n t : Z) (whole : bool) : ev := Crash args2 (n, t) (if whole then 3%nat else 1%nat).
Definition Ga (n t : Z) : ev := Garbage args2 (n, t) [9; 9].
Definition Rm (n t : Z) : ev := Remove args2 (n, t).

Definition case := (list ev * list Z)%type.   (* events; trajectory id returned by each Load (-1 for other events) *)

Definition check (c : case) : bool :=
  let '(es, outs) := c in
  list_eqb Z.eqb
    (map (fun o => match o with Some t => t | None => -1 end)
         (snd (run Z args2 name_hashed (fun a => snd a) ser par fs0 es)))
    outs.

Definition bad (cs : list case) : list nat := false_idx (map check cs).
