(* Correspondence check for C05. *)
From GV Require Export Base.Prelude Model.C03 Model.C04 Model.C05.

Definition ev_pairs (atoms : list (list Z * list Z)) : list (Z * Z) :=
  map (fun r => (r_s r, r_d r)) (events_all 0 atoms).
Definition j_pairs (mr : Z) (atoms : list (list Z * list Z)) : list (Z * Z) :=
  map (fun j => (j_from j, j_to j)) (jumps_all mr 0 atoms).

Record case := {
  n_sites : nat; labels : list Z; atoms : list (list Z * list Z); mr : Z;
  tmat : list (list Z); jmat : list (list Z);
  ctab : list (Z * Z * Z);          (* (label a, label b, count) from Jumps.counter() *)
  edges : list (Z * Z);             (* Jumps._counter() keys / to_graph edges, sorted *)
  occ : list Z;                     (* occupancy * n_frames per site *)
  d2 : list (list Z); d2den : Z;    (* squared site distances, common denominator *)
  dnum : Z; dden : Z;               (* implementation's jump diffusivity, exact dyadic *)
  fnum : Z; fden : Z                (* unit factor angstrom^2 / (2 dim N t), exact rational *)
}.

Definition support (n : nat) (rows : list (Z * Z)) : list (Z * Z) :=
  filter (fun p => 0 <? pcount p rows) (list_prod (zrange 0 n) (zrange 0 n)).

Definition check (c : case) : bool :=
  let jp := j_pairs (mr c) (atoms c) in
  let w := fun i j => znth 0 (znth [] (d2 c) i) j in
  list_eqb (list_eqb Z.eqb) (matrix (n_sites c) (ev_pairs (atoms c))) (tmat c)
  && list_eqb (list_eqb Z.eqb) (matrix (n_sites c) jp) (jmat c)
  && forallb (fun e => let '(la, lb, k) := e in counter (labels c) jp la lb =? k) (ctab c)
  && list_eqb (fun p q => pair_eqb p q) (support (n_sites c) jp) (edges c)
  && list_eqb Z.eqb (map (occ_count (map fst (atoms c))) (zrange 0 (n_sites c))) (occ c)
  && qclose (dnum c) (dden c) (rows_wsum w jp * fnum c) (d2den c * fden c) 1 1000000000.

Definition bad (cs : list case) : list nat := false_idx (map check cs).
