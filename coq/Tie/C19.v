(* Correspondence check for C19. *)
From GV Require Export Base.Prelude Model.C03 Model.C04 Model.C19.

(* jumps of an event table: per atom (increasing index), scan of that atom's rows *)
Definition jumps_of_events (mr : Z) (na : nat) (evs : list row) : list jump :=
  concat (map (fun a => scan mr (filter (fun r => r_atom r =? a) evs)) (zrange 0 na)).

Record case := {
  atoms : list (list Z * list Z); n_parts : nat; mr : Z;
  st_parts : list (list (list Z));     (* per part, per atom: outer states *)
  in_parts : list (list (list Z));     (* per part, per atom: inner states *)
  ev_parts : list (list row);          (* per part: re-based events *)
  j_parts : list (list jump);          (* per part: jumps (empty when none) *)
  tlen : nat;                          (* Trajectory.split: number of frames ... *)
  t_parts : list (list Z);             (* ... frame indices of each part *)
  t_equal : list (list Z)              (* ... with equal_parts=True *)
}.

Definition transpose_parts (n : nat) (cols : list (list (list Z))) : list (list (list Z)) :=
  map (fun k => map (fun parts => nth k parts []) cols) (seq 0 n).

Definition check (c : case) : bool :=
  let T := length (fst (hd ([], []) (atoms c))) in
  let n := n_parts c in
  let evs := events_all 0 (atoms c) in
  let bs := bounds (Z.of_nat T + 1) n in
  let parts := split_events bs evs in
  let tb := map Z.to_nat (bounds (Z.of_nat (tlen c) - 1) n) in
  nondecreasing bs
  && list_eqb (list_eqb (list_eqb Z.eqb))
       (transpose_parts n (map (fun a => array_split n (fst a)) (atoms c))) (st_parts c)
  && list_eqb (list_eqb (list_eqb Z.eqb))
       (transpose_parts n (map (fun a => array_split n (snd a)) (atoms c))) (in_parts c)
  && list_eqb (list_eqb row_eqb) parts (ev_parts c)
  && list_eqb (list_eqb jump_eqb) (map (jumps_of_events (mr c) (length (atoms c))) parts) (j_parts c)
  && list_eqb (list_eqb Z.eqb) (traj_parts tb (zrange 0 (tlen c))) (t_parts c)
  && list_eqb (list_eqb Z.eqb) (equal_parts tb (zrange 0 (tlen c))) (t_equal c).

Definition bad (cs : list case) : list nat := false_idx (map check cs).
