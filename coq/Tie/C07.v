(* Correspondence check for C07 (commuting squares): the implementation's results on the
   ORIGINAL system, relabelled / shifted by the transformation g, must be acceptable for the
   exact model of the TRANSFORMED system; the density volume of the translated system must be
   the model volume of the original samples rolled by the shift. *)
From GV Require Export Base.Prelude Model.C01 Model.Geom Model.C02 Model.C08.

Definition P x y z : V3 := (x, y, z).

Record geo := {
  gM : mat3; gK : Z;
  gsites : list V3; gr2 : Z * Z;
  gpos : list V3; gstates : list Z     (* states of the original run, relabelled; -99 = guard band *)
}.

Record case := {
  D : Z;
  geos : list geo;
  vdims : Z * Z * Z; vq : Z * Z * Z;                    (* grid size, D / grid size per axis *)
  vsamples : list (Z * Z * Z);                          (* wrapped samples of the original system *)
  vshift : Z * Z * Z;                                   (* translation in voxels *)
  vrolled : list ((Z * Z * Z) * Z)                      (* non-zero voxels of the translated system's volume *)
}.

Definition check_geo (D : Z) (g : geo) : bool :=
  let G := gram_of (gM g) in
  window_ok (gM g) (gK g)
  && forall2b (fun p st => ok_state (adm_from D G (gK g) (1, 1) 0 (gsites g) (map (fun _ => gr2 g) (gsites g)) p) st)
              (gpos g) (gstates g).

Definition check (c : case) : bool :=
  forallb (check_geo (D c)) (geos c)
  && (let '(nx, ny, nz) := vdims c in let '(kx, ky, kz) := vshift c in
      forallb (fun e => let '((i, j, k), cnt) := e in
                 density (D c) (vdims c) (vsamples c) ((i - kx) mod nx, (j - ky) mod ny, (k - kz) mod nz) =? cnt) (vrolled c)
      && ((zsum (map snd (vrolled c)) =? Z.of_nat (length (vsamples c))) || (Z.of_nat (length (vrolled c)) =? 0))).

Definition bad (cs : list case) : list nat := false_idx (map check cs).
