(* Correspondence check for C02: the implementation's site states must be acceptable for the
   exact model (an admissible site, or -1 when there is none).  Positions whose distance to
   some site sphere is within the float32 guard band are marked -99 by the harness and
   skipped (they are counted in the evidence). *)
From GV Require Export Base.Prelude Model.C01 Model.Geom Model.C02.

Definition P x y z : V3 := (x, y, z).

Record case := {
  D : Z; M : mat3; K : Z;
  sites : list V3;
  r2 : list (Z * Z);                (* per site: (radius_k)^2 * D^2 as an exact rational num/den *)
  f2 : Z * Z;                       (* inner fraction squared, num/den *)
  pos : list V3;                    (* atom positions (frame-major), numerators over D *)
  states : list Z; inner : list Z;  (* implementation; -99 = excluded by the guard band *)
  disjoint_claim : bool             (* radius chosen automatically: spheres must not overlap *)
}.

Definition check (c : case) : bool :=
  let G := gram_of (M c) in
  window_ok (M c) (K c)
  && forall2b (fun p st => ok_state (adm_from (D c) G (K c) (1, 1) 0 (sites c) (r2 c) p) st) (pos c) (states c)
  && forall2b (fun p st => ok_state (adm_from (D c) G (K c) (f2 c) 0 (sites c) (r2 c) p) st) (pos c) (inner c)
  && (if disjoint_claim c
      then forallb (spheres_disjoint (D c) G (K c) (sites c)) (r2 c)
      else true).

Definition bad (cs : list case) : list nat := false_idx (map check cs).
