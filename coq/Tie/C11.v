(* Correspondence check for C11. *)
From GV Require Export Base.Prelude Model.C03 Model.C11.

Record case := {
  last_label : Z;                       (* index of unique_labels[-1] (depends on the hash order of the label set) *)
  labels : list Z;                      (* label index per site *)
  hists : list (list Z);                (* per diffusing atom: site state per frame (from the implementation) *)
  symbols : list Z;                     (* species index per atom *)
  edges2 : list (Z * Z);                (* squared bin edges, exact *)
  dists : list (list (list (Z * Z)));   (* [frame][diffusing atom][atom]: squared minimum-image distance, exact *)
  table : list (sname * Z * list Z);    (* implementation: (state, species, counts per bin without the overflow bin) *)
  bs_ds : list (Z * Z); bs_edges2 : list (Z * Z); bs_counts : list Z   (* species-pair histogram: distances, edges, raw counts *)
}.

Definition check (c : case) : bool :=
  let ps := pairs_of (last_label c + 1) (labels c) (hists c) (symbols c) (edges2 c) (dists c) in
  let nb := Z.of_nat (length (edges2 c)) in
  forallb (fun e => let '(nm, sym, cnt) := e in
             list_eqb Z.eqb (map (count_key ps nm sym) (zrange 0 (length (edges2 c)))) cnt) (table c)
  (* every counted pair is either in the overflow bin or in one of the reported (state, species) rows *)
  && (zsum (map (fun e => zsum (snd e)) (table c))
      + Z.of_nat (length (filter (fun p => p_bin p =? nb) ps)) =? Z.of_nat (length ps))
  && list_eqb Z.eqb (map (hist_counts (bs_edges2 c) (bs_ds c)) (zrange 0 (length (bs_edges2 c) - 1))) (bs_counts c).

Definition bad (cs : list case) : list nat := false_idx (map check cs).
