(* Correspondence check for C12. *)
From GV Require Export Base.Prelude Model.C04 Model.C12.

Record case := {
  W : Z; d2 : list (list Z); maxd2 : Z; table : list jump;
  pairs : list (jump * jump);       (* implementation's collective pairs *)
  solo : Z; ncoll : Z
}.

Definition pair_in (p : jump * jump) (l : list (jump * jump)) : bool :=
  existsb (fun q => (jump_eqb (fst p) (fst q) && jump_eqb (snd p) (snd q))
                 || (jump_eqb (fst p) (snd q) && jump_eqb (snd p) (fst q))) l.

Definition check (c : case) : bool :=
  let m := collective (W c) (d2 c) (maxd2 c) (table c) in
  (length m =? length (pairs c))%nat
  && forallb (fun p => pair_in p (pairs c)) m
  && forallb (fun p => pair_in p m) (pairs c)
  && (n_solo m (table c) =? solo c) && (n_coll m (table c) =? ncoll c).

Definition bad (cs : list case) : list nat := false_idx (map check cs).
