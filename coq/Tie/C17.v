(* Correspondence check for C17. *)
From GV Require Export Base.Prelude Model.C01 Model.Geom Model.C17.

Definition P x y z : V3 := (x, y, z).
Definition Mx a b c : mat3 := {| ra := a; rb := b; rc := c |}.
Definition Op Wm Winv (w : V3) : symop * mat3 := ({| W := Wm; wt := w |}, Winv).

Record case := {
  D : Z; M : mat3; K : Z; r2 : Z * Z;
  ops : list (symop * mat3);            (* operations exported from pymatgen with their inverse rotations *)
  site : V3;
  supercell : V3;                       (* (1,1,1) when the positions are already in the unit cell *)
  raw_positions : list V3;              (* numerators over D in the (super)cell *)
  out_points : list V3                  (* implementation: centred fractional coordinates x D (rounded) *)
}.

Definition fold3 (D : Z) (s v : V3) : V3 :=
  let '(sx, sy, sz) := s in let '(x, y, z) := v in (fold D sx x, fold D sy y, fold D sz z).
Definition v3_eqb (u v : V3) : bool :=
  let '(a, b, c) := u in let '(x, y, z) := v in (a =? x) && (b =? y) && (c =? z).

Definition check (c : case) : bool :=
  let G := gram_of (M c) in
  window_ok (M c) (K c) && radius_ok (M c) (r2 c) (D c)
  && forallb (fun ow => isometry G (W (fst ow)) && isometry G (snd ow) && is_inverse (W (fst ow)) (snd ow)) (ops c)
  && list_eqb v3_eqb
       (points (D c) G (K c) (r2 c) (ops c) (site c) (map (fold3 (D c) (supercell c)) (raw_positions c)))
       (out_points c).

Definition bad (cs : list case) : list nat := false_idx (map check cs).
