(* Correspondence check for C13. *)
From GV Require Export Base.Prelude Model.C01 Model.C13.

Record case := {
  D : Z; mask : list bool;
  axes : list (list (list Z));           (* per axis, per atom, per frame: raw coordinates *)
  drift : list (list Z);                 (* per axis, per frame: n * D * drift *)
  cpos : list (list (list Z))            (* per axis, per atom, per frame: corrected positions over n * D *)
}.

Definition check (c : case) : bool :=
  forall2b (fun ax (o : list Z * list (list Z)) =>
              let '(dn, ps) := pipeline (D c) (mask c) ax in
              list_eqb Z.eqb dn (fst o) && list_eqb (list_eqb Z.eqb) ps (snd o))
           (axes c) (combine (drift c) (cpos c)).

Definition bad (cs : list case) : list nat := false_idx (map check cs).
