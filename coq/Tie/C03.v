(* Correspondence check for C03: model output vs. implementation output. *)
From GV Require Export Base.Prelude Model.C03.


(* atoms (outer, inner); implementation's event rows; states_prev / states_next per atom *)
Definition case := (list (list Z * list Z) * list row * list (list Z) * list (list Z))%type.

Definition check (c : case) : bool :=
  let '(atoms, rows, prevs, nexts) := c in
  list_eqb row_eqb (events_all 0 atoms) rows
  && list_eqb (list_eqb Z.eqb) (map (fun a => ffill (fst a)) atoms) prevs
  && list_eqb (list_eqb Z.eqb) (map (fun a => bfill (fst a)) atoms) nexts.

Definition bad (cs : list case) : list nat := false_idx (map check cs).
