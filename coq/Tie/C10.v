(* Correspondence + certificate check for C10. *)
From GV Require Export Base.Prelude Model.C10 Proofs.C10.

Definition N x y z : node := (x, y, z).

(* one optimal_path query on the plain grid graph *)
Record query := {
  q_crit : Z;                      (* 0: sum of edge weights (doubled, w2); 1: number of steps; 2: weight_exp table *)
  q_s : node; q_t : node;
  q_reached : bool;                (* false: the implementation raised NetworkXNoPath *)
  q_path : list node; q_energy : list Z;    (* Pathway.sites / Pathway.energy *)
  q_pot : list Z;                  (* certificate: potential per node (C order), or cut membership 0/1 when unreachable *)
  q_wexp : list (node * node * Z); (* crit 2: the graph's weight_exp attributes, scaled *)
  q_slack : Z
}.

Record perc := {
  p_axes : bool * bool * bool;
  p_peaks : list node;
  p_found : bool;
  p_path : list node; p_energy : list Z;
  p_best : nat;                               (* index of the peak whose path was returned *)
  p_pots : list (bool * list Z)               (* per peak: (reachable, potential or cut on the tiled grid) *)
}.

Record case := {
  g : grid; thr : Z; diagonal : bool;
  n_edges : nat;                              (* number of undirected edges of the implementation's graph (no self loops) *)
  impl_edges : list (node * node * Z);        (* sample of the implementation's edges with doubled weight *)
  queries : list query;
  percs : list perc;
  pthr : Z;                                   (* 1e7 on the energy scale, used by optimal_percolating_path *)
  wraps : list (node * node * node * list (Z * Z))   (* dims, site, wrapped_sites, frac_sites as dyadics *)
}.

(* the graph with the movement lists taken from the source (Gen/MovesDef.v, regenerated on every run) *)
Definition edges_mv (mv : bool -> list node) (g : grid) (thr : Z) (diagonal : bool) : list (node * node) :=
  flat_map (fun u => if admissible g thr u
                     then flat_map (fun m => let v := step_to (dims g) u m in
                                             if admissible g thr v then [(u, v)] else [])
                                   (mv diagonal)
                     else [])
           (all_nodes (dims g)).
Lemma edges_mv_model : forall g thr diag, edges_mv moves g thr diag = edges g thr diag.
Proof. reflexivity. Qed.

Definition lookup_w (tab : list (node * node * Z)) (u v : node) : Z :=
  match find (fun e => let '(a, b, _) := e in (node_eqb a u && node_eqb b v) || (node_eqb a v && node_eqb b u)) tab with
  | Some (_, _, x) => x
  | None => 0
  end.

Definition check_query (gr : grid) (el : list (node * node)) (q : query) : bool :=
  let d := dims gr in
  let w := if q_crit q =? 0 then w2 gr else if q_crit q =? 1 then w_hops else lookup_w (q_wexp q) in
  if q_reached q then
    path_ok node node_eqb el (q_path q) && endpoints node node_eqb (q_s q) (q_t q) (q_path q)
    && list_eqb Z.eqb (path_energies gr (q_path q)) (q_energy q)
    && feasible node el w (pot_of d (q_pot q))
    && (cost node w (q_path q) <=? pot_of d (q_pot q) (q_t q) - pot_of d (q_pot q) (q_s q) + q_slack q)
  else
    closed_cut node el (fun v => pot_of d (q_pot q) v =? 1) (q_s q) (q_t q)
    || negb (existsb (node_eqb (q_s q)) (map fst el)) || negb (existsb (node_eqb (q_t q)) (map fst el)).

Definition check_perc (mv : bool -> list node) (gr : grid) (pthr : Z) (p : perc) : bool :=
  let tg := tile gr (p_axes p) in
  let d := dims tg in
  let el := edges_mv mv tg pthr true in
  let stop s := perc_stop (dims gr) (p_axes p) s in
  (* every peak: feasible potential (reachable) or closed cut (unreachable) *)
  forall2b (fun s (c : bool * list Z) =>
              if fst c then feasible node el (w2 tg) (pot_of d (snd c))
              else closed_cut node el (fun v => pot_of d (snd c) v =? 1) s (stop s)
                   || negb (existsb (node_eqb s) (map fst el)) || negb (existsb (node_eqb (stop s)) (map fst el)))
           (p_peaks p) (p_pots p)
  && (if p_found p then
        let s := nth (p_best p) (p_peaks p) (0,0,0) in
        path_ok node node_eqb el (p_path p) && endpoints node node_eqb s (stop s) (p_path p)
        && list_eqb Z.eqb (path_energies tg (p_path p)) (p_energy p)
        (* cheapest over all peaks under the reported criterion (total energy):
           2 * total <= lower bound of every reachable peak + E(start) + E(stop) *)
        && forall2b (fun sj (c : bool * list Z) =>
                       if fst c then 2 * total_energy tg (p_path p)
                                     <=? pot_of d (snd c) (stop sj) - pot_of d (snd c) sj + E tg sj + E tg (stop sj)
                       else true)
                    (p_peaks p) (p_pots p)
      else forallb (fun c => negb (fst c)) (p_pots p)).

Definition check_with (mv : bool -> list node) (wrap : node -> node -> node) (frac : node -> node -> (Z * Z) * (Z * Z) * (Z * Z)) (c : case) : bool :=
  let el := edges_mv mv (g c) (thr c) (diagonal c) in
  (* graph: the implementation's edge set equals the model's (both inclusions), with the right weights *)
  forallb (fun e => let '(u, v, x) := e in is_edge node node_eqb el u v && (w2 (g c) u v =? x)) (impl_edges c)
  && forallb (fun e => existsb (fun i => let '(u, v, _) := i in
                                  (node_eqb u (fst e) && node_eqb v (snd e)) || (node_eqb u (snd e) && node_eqb v (fst e)))
                               (impl_edges c)) el
  && forallb (check_query (g c) el) (queries c)
  && forallb (check_perc mv (g c) (pthr c)) (percs c)
  && forallb (fun r => let '(d, s, ws, fr) := r in
                node_eqb (wrap d s) ws
                && match frac d s, fr with
                   | ((a, da), (b, db), (cc, dc)), [(fa, fda); (fb, fdb); (fc, fdc)] =>
                       qclose fa fda a da 1 1000000000000000 && qclose fb fdb b db 1 1000000000000000
                       && qclose fc fdc cc dc 1 1000000000000000
                   | _, _ => false
                   end) (wraps c).

Definition bad_with mv wrap frac (cs : list case) : list nat := false_idx (map (check_with mv wrap frac) cs).
