(* Correspondence check for C14 (rational part of the metrics; the sqrt/periodogram based
   ones are tied through the scaling laws and recomputation in the harness oracle). *)
From GV Require Export Base.Prelude Model.C01 Model.Geom.

Record case := {
  D : Z; M : mat3;
  atoms : list (list (list Z));      (* per atom, per axis, per frame: raw coordinates over D *)
  masses : list Z;                   (* per atom: mass scaled to an integer (common denominator) *)
  nframes : Z;
  dim : Z; z_ion : Z;
  dt : Z * Z; temp : Z * Z;          (* exact rationals *)
  density : Z * Z; molarity : Z * Z; dtracer : Z * Z; dcom : Z * Z; haven : Z * Z; conduct : Z * Z   (* implementation, exact dyadics *)
}.

Definition final_cum (D : Z) (axes : list (list Z)) : V3 :=
  match map (fun c => last (cumdisp D (positions D c)) 0) axes with
  | [x; y; z] => (x, y, z)
  | _ => (0, 0, 0)
  end.

(* rationals as (num, den), den > 0 *)
Definition qmul (a b : Z * Z) : Z * Z := (fst a * fst b, snd a * snd b).
Definition qdiv (a b : Z * Z) : Z * Z := if 0 <? fst b then (fst a * snd b, snd a * fst b) else (- (fst a * snd b), - (snd a * fst b)).
Definition close9 (impl model : Z * Z) : bool := qclose (fst impl) (snd impl) (fst model) (snd model) 1 1000000000.

Definition check (c : case) : bool :=
  let G := gram_of (M c) in
  let n := Z.of_nat (length (atoms c)) in
  let vol := Z.abs (det3 (M c)) in
  let cums := map (final_cum (D c)) (atoms c) in
  (* particle density: n / (vol * 1e-30) *)
  let rho := (n * 10 ^ 30, vol) in
  (* mean squared final displacement in A^2 *)
  let msd := (zsum (map (qf G) cums), n * (D c) * (D c)) in
  let total_time := qmul (nframes c, 1) (dt c) in
  let diff m := qdiv (qmul m (1, 10 ^ 20)) (qmul (2 * dim c, 1) total_time) in
  let W := zsum (masses c) in
  let com := fold_left vadd3 (zip_with (fun w v => vscale3 w v) (masses c) cums) (0, 0, 0) in
  let msd_com := (qf G com, W * W * (D c) * (D c)) in
  let e2 := (1602176634 * 1602176634, 10 ^ 56) in
  let kB := (1380649, 10 ^ 29) in
  close9 (density c) rho
  && close9 (molarity c) (qdiv (qmul rho (1, 1000)) (602214076 * 10 ^ 15, 1))
  && close9 (dtracer c) (diff msd)
  && close9 (dcom c) (diff msd_com)
  && close9 (haven c) (qdiv (diff msd) (diff msd_com))
  && close9 (conduct c) (qdiv (qmul (qmul e2 (z_ion c * z_ion c, 1)) (qmul (diff msd) rho)) (qmul kB (temp c))).

Definition bad (cs : list case) : list nat := false_idx (map check cs).
