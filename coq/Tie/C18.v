(* Correspondence check for C18. *)
From GV Require Export Base.Prelude Model.C01 Model.Geom Model.C17 Model.C18.

Definition P x y z : V3 := (x, y, z).
Definition Mx a b c : mat3 := {| ra := a; rb := b; rc := c |}.

Record case := {
  D : Z; M : mat3; K : Z;
  frames : list (list V3 * list V3);       (* per frame: wrapped centre positions, wrapped satellite positions *)
  vectors : list (list V3);                (* implementation: fractional bond vectors x D per frame *)
  ops : list mat3;                         (* point-group operation matrices (as pymatgen returns them) *)
  in_vectors : list V3;                    (* integer test vectors *)
  sym_out : list (list V3);                (* implementation: per input vector, its symmetrised copies (any order) *)
  tmat : mat3; t_out : list V3             (* transform(matrix) of in_vectors *)
}.

Definition v3_eqb (u v : V3) : bool :=
  let '(a, b, c) := u in let '(x, y, z) := v in (a =? x) && (b =? y) && (c =? z).
Definition count3 (x : V3) (l : list V3) : nat := length (filter (v3_eqb x) l).
Definition same_multiset (a b : list V3) : bool :=
  (length a =? length b)%nat && forallb (fun x => (count3 x a =? count3 x b)%nat) a.

Definition check (c : case) : bool :=
  let G := gram_of (M c) in
  let m := match frames c with (c0, s0) :: _ => matched (D c) G (K c) c0 s0 | [] => [] end in
  window_ok (M c) (K c)
  && list_eqb (list_eqb v3_eqb) (map (fun f => frame_vectors (D c) m (fst f) (snd f)) (frames c)) (vectors c)
  && forallb orthogonal (ops c) && closed_under_transpose (ops c)
  && forall2b (fun v out => same_multiset (symmetrize (ops c) [v]) out && same_multiset (images (ops c) v) out)
              (in_vectors c) (sym_out c)
  && list_eqb v3_eqb (transform (tmat c) (in_vectors c)) (t_out c).

Definition bad (cs : list case) : list nat := false_idx (map check cs).
