(* Correspondence check for C04. *)
From GV Require Export Base.Prelude Model.C03 Model.C04.


(* atoms (outer, inner); list of (minimal residence, implementation's jump rows) *)
Definition case := (list (list Z * list Z) * list (Z * list jump))%type.

Definition check (c : case) : bool :=
  let '(atoms, runs) := c in
  forallb (fun r => list_eqb jump_eqb (jumps_all (fst r) 0 atoms) (snd r)) runs.

Definition bad (cs : list case) : list nat := false_idx (map check cs).
