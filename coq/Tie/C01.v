(* Correspondence check for C01. *)
From GV Require Export Base.Prelude Model.C01 Model.C01F.
From Coq Require Import PrimFloat.

Definition fl3 := (bool * Z * Z)%type.          (* sign, mantissa, exponent *)
Definition to_float (f : fl3) : float := let '(s, m, e) := f in mkfloat s m e.

Record obs := {                       (* what the implementation returned for one input *)
  o_pos : list (list (list Z));       (* per atom, per axis, per frame: numerators over D *)
  o_disp : list (list (list Z));
  o_cum : list (list (list Z));
  o_dist : list (list (Z * Z))        (* per atom, per frame: distance from base, exact dyadic *)
}.

Record case := {
  D : Z; G : list (list Z); gden : Z;
  coords : list (list (list Z));      (* per atom, per axis, per frame *)
  shifted : list (list (list Z));     (* same with whole-cell shifts added *)
  out1 : obs; out2 : obs;
  floats : list (fl3 * fl3)           (* face-adjacent stream: (input, first .positions read) *)
}.

Definition l3_eqb := list_eqb (list_eqb (list_eqb Z.eqb)).

(* per atom: transpose axis-major cumulative displacements into per-frame vectors *)
Fixpoint frames_of (axes : list (list Z)) : list (list Z) :=
  match axes with
  | [x; y; z] => zip_with (fun a bc => a :: bc) x (zip_with (fun b c => [b; c]) y z)
  | _ => []
  end.

Definition check_obs (D : Z) (G : list (list Z)) (gden : Z) (cs : list (list (list Z))) (o : obs) : bool :=
  (* the harness reads .positions first, which wraps the stored coordinates in place;
     displacements are then taken between the wrapped positions (equal to those of the raw
     coordinates away from exact half-cell steps: Proofs/C01 displacements_of_positions) *)
  l3_eqb (map (map (positions D)) cs) (o_pos o)
  && l3_eqb (map (map (fun c => displacements D (positions D c))) cs) (o_disp o)
  && l3_eqb (map (map (fun c => cumdisp D (positions D c))) cs) (o_cum o)
  && forall2b (forall2b (fun (v : list Z) (d : Z * Z) =>
                  qclose (fst d * fst d) (snd d * snd d) (qf3 G v) (D * D * gden) 1 1000000000
                  || ((qf3 G v =? 0) && (fst d =? 0))))
       (map (fun axes => frames_of (map (fun c => cumdisp D (positions D c)) axes)) cs) (o_dist o).

Definition float_same (a b : float) : bool :=
  PrimFloat.eqb a b.

Definition check (c : case) : bool :=
  check_obs (D c) (G c) (gden c) (coords c) (out1 c)
  && check_obs (D c) (G c) (gden c) (shifted c) (out2 c)
  && forallb (fun p => float_same (wrapP (to_float (fst p))) (to_float (snd p))) (floats c).

Definition bad (cs : list case) : list nat := false_idx (map check cs).
