(* Correspondence check for C06. *)
From GV Require Export Base.Prelude Model.C01 Model.Geom Model.C06.

Record case := {
  D : Z; M : mat3;
  atoms : list (list (list Z));        (* per atom, per fractional axis, per frame: raw coordinates over D *)
  msd : list (list (Z * Z));           (* per atom, per lag: implementation value, exact dyadic *)
  tol : list (Z * Z);                  (* per atom: absolute tolerance (1e-9 of the largest value) *)
  tracer : Z * Z;                      (* tracer_diffusivity(dimensions), exact dyadic *)
  fac : Z * Z                          (* angstrom^2 / (2 dim T dt), exact rational *)
}.

(* unwrapped Cartesian component series (numerators over D) of one atom *)
Definition cart_series (D : Z) (M : mat3) (axes : list (list Z)) : list (list Z) :=
  match map (fun c => cumdisp D (positions D c)) axes with
  | [cx; cy; cz] =>
      let frames := zip_with (fun x yz => (x, fst yz, snd yz)) cx (zip_with pair cy cz) in
      let cs := map (cart M) frames in
      [map (fun v => fst (fst v)) cs; map (fun v => snd (fst v)) cs; map (fun v => snd v) cs]
  | _ => []
  end.

Definition check_atom (D : Z) (M : mat3) (axes : list (list Z)) (vals : list (Z * Z)) (tl : Z * Z) : bool :=
  let c := cart_series D M axes in
  let T := length (hd [] c) in
  forall2b (fun tau (v : Z * Z) =>
              qclose_abs (fst v) (snd v) (msd3_impl_num c tau) (D * D * Z.of_nat (T - tau)) (fst tl) (snd tl))
           (seq 0 T) vals.

Definition final_d2 (D : Z) (M : mat3) (axes : list (list Z)) : Z :=
  let c := cart_series D M axes in
  zsum (map (fun xs => let x := last xs 0 in x * x) c).

Definition check (c : case) : bool :=
  forall2b (fun a (vt : list (Z * Z) * (Z * Z)) => check_atom (D c) (M c) a (fst vt) (snd vt))
           (atoms c) (combine (msd c) (tol c))
  && qclose (fst (tracer c)) (snd (tracer c))
            (zsum (map (final_d2 (D c) (M c)) (atoms c)) * fst (fac c))
            (Z.of_nat (length (atoms c)) * (D c) * (D c) * snd (fac c)) 1 1000000000.

Definition bad (cs : list case) : list nat := false_idx (map check cs).
