(* Correspondence check for C15: operation sequences on the real Trajectory API vs the
   model store, and CPython's slice.indices vs the model's slice semantics. *)
From GV Require Export Base.Prelude Model.C01 Model.C15.

Definition res_eqb (a b : res) : bool :=
  match a, b with
  | RNone, RNone => true
  | RErr, RErr => true
  | RVal u, RVal v => list_eqb (list_eqb Z.eqb) u v
  | _, _ => false
  end.

Definition opt_eqb {A} (e : A -> A -> bool) (a b : option A) : bool :=
  match a, b with Some x, Some y => e x y | None, None => true | _, _ => false end.

Record case := {
  D : Z;
  store0 : list traj;
  ops : list op;
  results : list res;                                                   (* implementation *)
  slices : list (option Z * option Z * option Z * nat * option (list Z))  (* CPython: list of range over slice.indices(len) *)
}.

Definition T (m : bool) (c : list (list Z)) (b : list Z) : traj :=
  {| t_mode := if m then MDisp else MPos; t_coords := c; t_base := b |}.

Definition check (c : case) : bool :=
  list_eqb res_eqb (snd (run (D c) (store0 c) (ops c))) (results c)
  && forallb (fun s => let '(a, b, st, len, r) := s in opt_eqb (list_eqb Z.eqb) (py_slice a b st len) r) (slices c).

Definition bad (cs : list case) : list nat := false_idx (map check cs).
