#!/bin/bash
# Build the whole Coq development from clean (full .vo build).
set -e
cd "$(dirname "${BASH_SOURCE[0]}")/coq"
rm -f Makefile Makefile.conf .Makefile.d
find . -name '*.vo' -o -name '*.vos' -o -name '*.vok' -o -name '*.glob' -o -name '.*.aux' | xargs -r rm -f
coq_makefile -f _CoqProject -o Makefile > /dev/null
timeout 3000 make -j16 2>&1 | grep -v '^COQDEP\|WARNING' | tail -50
test "${PIPESTATUS[0]}" = 0
